
(** val implb : bool -> bool -> bool **)

let implb b1 b2 =
  if b1 then b2 else true

(** val negb : bool -> bool **)

let negb = function
| true -> false
| false -> true

type nat =
| O
| S of nat

type ('a, 'b) sum =
| Inl of 'a
| Inr of 'b

(** val fst : ('a1 * 'a2) -> 'a1 **)

let fst = function
| (x, _) -> x

(** val snd : ('a1 * 'a2) -> 'a2 **)

let snd = function
| (_, y) -> y

(** val length : 'a1 list -> nat **)

let rec length = function
| [] -> O
| _ :: l' -> S (length l')

(** val app : 'a1 list -> 'a1 list -> 'a1 list **)

let rec app l m0 =
  match l with
  | [] -> m0
  | a :: l1 -> a :: (app l1 m0)

type comparison =
| Eq
| Lt
| Gt

type uint =
| Nil
| D0 of uint
| D1 of uint
| D2 of uint
| D3 of uint
| D4 of uint
| D5 of uint
| D6 of uint
| D7 of uint
| D8 of uint
| D9 of uint

(** val revapp : uint -> uint -> uint **)

let rec revapp d d' =
  match d with
  | Nil -> d'
  | D0 d0 -> revapp d0 (D0 d')
  | D1 d0 -> revapp d0 (D1 d')
  | D2 d0 -> revapp d0 (D2 d')
  | D3 d0 -> revapp d0 (D3 d')
  | D4 d0 -> revapp d0 (D4 d')
  | D5 d0 -> revapp d0 (D5 d')
  | D6 d0 -> revapp d0 (D6 d')
  | D7 d0 -> revapp d0 (D7 d')
  | D8 d0 -> revapp d0 (D8 d')
  | D9 d0 -> revapp d0 (D9 d')

(** val rev : uint -> uint **)

let rev d =
  revapp d Nil

module Little =
 struct
  (** val double : uint -> uint **)

  let rec double = function
  | Nil -> Nil
  | D0 d0 -> D0 (double d0)
  | D1 d0 -> D2 (double d0)
  | D2 d0 -> D4 (double d0)
  | D3 d0 -> D6 (double d0)
  | D4 d0 -> D8 (double d0)
  | D5 d0 -> D0 (succ_double d0)
  | D6 d0 -> D2 (succ_double d0)
  | D7 d0 -> D4 (succ_double d0)
  | D8 d0 -> D6 (succ_double d0)
  | D9 d0 -> D8 (succ_double d0)

  (** val succ_double : uint -> uint **)

  and succ_double = function
  | Nil -> D1 Nil
  | D0 d0 -> D1 (double d0)
  | D1 d0 -> D3 (double d0)
  | D2 d0 -> D5 (double d0)
  | D3 d0 -> D7 (double d0)
  | D4 d0 -> D9 (double d0)
  | D5 d0 -> D1 (succ_double d0)
  | D6 d0 -> D3 (succ_double d0)
  | D7 d0 -> D5 (succ_double d0)
  | D8 d0 -> D7 (succ_double d0)
  | D9 d0 -> D9 (succ_double d0)
 end

module Coq__1 = struct
 (** val add : nat -> nat -> nat **)
 let rec add n0 m0 =
   match n0 with
   | O -> m0
   | S p -> S (add p m0)
end
include Coq__1

(** val eqb : bool -> bool -> bool **)

let eqb b1 b2 =
  if b1 then b2 else if b2 then false else true

module Nat =
 struct
  (** val eqb : nat -> nat -> bool **)

  let rec eqb n0 m0 =
    match n0 with
    | O -> (match m0 with
            | O -> true
            | S _ -> false)
    | S n' -> (match m0 with
               | O -> false
               | S m' -> eqb n' m')

  (** val leb : nat -> nat -> bool **)

  let rec leb n0 m0 =
    match n0 with
    | O -> true
    | S n' -> (match m0 with
               | O -> false
               | S m' -> leb n' m')
 end

type positive =
| XI of positive
| XO of positive
| XH

type n =
| N0
| Npos of positive

type z =
| Z0
| Zpos of positive
| Zneg of positive

module Pos =
 struct
  type mask =
  | IsNul
  | IsPos of positive
  | IsNeg
 end

module Coq_Pos =
 struct
  (** val succ : positive -> positive **)

  let rec succ = function
  | XI p -> XO (succ p)
  | XO p -> XI p
  | XH -> XO XH

  (** val add : positive -> positive -> positive **)

  let rec add x y =
    match x with
    | XI p ->
      (match y with
       | XI q -> XO (add_carry p q)
       | XO q -> XI (add p q)
       | XH -> XO (succ p))
    | XO p ->
      (match y with
       | XI q -> XI (add p q)
       | XO q -> XO (add p q)
       | XH -> XI p)
    | XH -> (match y with
             | XI q -> XO (succ q)
             | XO q -> XI q
             | XH -> XO XH)

  (** val add_carry : positive -> positive -> positive **)

  and add_carry x y =
    match x with
    | XI p ->
      (match y with
       | XI q -> XI (add_carry p q)
       | XO q -> XO (add_carry p q)
       | XH -> XI (succ p))
    | XO p ->
      (match y with
       | XI q -> XO (add_carry p q)
       | XO q -> XI (add p q)
       | XH -> XO (succ p))
    | XH ->
      (match y with
       | XI q -> XI (succ q)
       | XO q -> XO (succ q)
       | XH -> XI XH)

  (** val pred_double : positive -> positive **)

  let rec pred_double = function
  | XI p -> XI (XO p)
  | XO p -> XI (pred_double p)
  | XH -> XH

  type mask = Pos.mask =
  | IsNul
  | IsPos of positive
  | IsNeg

  (** val succ_double_mask : mask -> mask **)

  let succ_double_mask = function
  | IsNul -> IsPos XH
  | IsPos p -> IsPos (XI p)
  | IsNeg -> IsNeg

  (** val double_mask : mask -> mask **)

  let double_mask = function
  | IsPos p -> IsPos (XO p)
  | x0 -> x0

  (** val double_pred_mask : positive -> mask **)

  let double_pred_mask = function
  | XI p -> IsPos (XO (XO p))
  | XO p -> IsPos (XO (pred_double p))
  | XH -> IsNul

  (** val sub_mask : positive -> positive -> mask **)

  let rec sub_mask x y =
    match x with
    | XI p ->
      (match y with
       | XI q -> double_mask (sub_mask p q)
       | XO q -> succ_double_mask (sub_mask p q)
       | XH -> IsPos (XO p))
    | XO p ->
      (match y with
       | XI q -> succ_double_mask (sub_mask_carry p q)
       | XO q -> double_mask (sub_mask p q)
       | XH -> IsPos (pred_double p))
    | XH -> (match y with
             | XH -> IsNul
             | _ -> IsNeg)

  (** val sub_mask_carry : positive -> positive -> mask **)

  and sub_mask_carry x y =
    match x with
    | XI p ->
      (match y with
       | XI q -> succ_double_mask (sub_mask_carry p q)
       | XO q -> double_mask (sub_mask p q)
       | XH -> IsPos (pred_double p))
    | XO p ->
      (match y with
       | XI q -> double_mask (sub_mask_carry p q)
       | XO q -> succ_double_mask (sub_mask_carry p q)
       | XH -> double_pred_mask p)
    | XH -> IsNeg

  (** val mul : positive -> positive -> positive **)

  let rec mul x y =
    match x with
    | XI p -> add y (XO (mul p y))
    | XO p -> XO (mul p y)
    | XH -> y

  (** val compare_cont : comparison -> positive -> positive -> comparison **)

  let rec compare_cont r x y =
    match x with
    | XI p ->
      (match y with
       | XI q -> compare_cont r p q
       | XO q -> compare_cont Gt p q
       | XH -> Gt)
    | XO p ->
      (match y with
       | XI q -> compare_cont Lt p q
       | XO q -> compare_cont r p q
       | XH -> Gt)
    | XH -> (match y with
             | XH -> r
             | _ -> Lt)

  (** val compare : positive -> positive -> comparison **)

  let compare =
    compare_cont Eq

  (** val eqb : positive -> positive -> bool **)

  let rec eqb p q =
    match p with
    | XI p0 -> (match q with
                | XI q0 -> eqb p0 q0
                | _ -> false)
    | XO p0 -> (match q with
                | XO q0 -> eqb p0 q0
                | _ -> false)
    | XH -> (match q with
             | XH -> true
             | _ -> false)

  (** val iter_op : ('a1 -> 'a1 -> 'a1) -> positive -> 'a1 -> 'a1 **)

  let rec iter_op op p a =
    match p with
    | XI p0 -> op a (iter_op op p0 (op a a))
    | XO p0 -> iter_op op p0 (op a a)
    | XH -> a

  (** val to_nat : positive -> nat **)

  let to_nat x =
    iter_op Coq__1.add x (S O)

  (** val of_succ_nat : nat -> positive **)

  let rec of_succ_nat = function
  | O -> XH
  | S x -> succ (of_succ_nat x)

  (** val of_uint_acc : uint -> positive -> positive **)

  let rec of_uint_acc d acc =
    match d with
    | Nil -> acc
    | D0 l -> of_uint_acc l (mul (XO (XI (XO XH))) acc)
    | D1 l -> of_uint_acc l (add XH (mul (XO (XI (XO XH))) acc))
    | D2 l -> of_uint_acc l (add (XO XH) (mul (XO (XI (XO XH))) acc))
    | D3 l -> of_uint_acc l (add (XI XH) (mul (XO (XI (XO XH))) acc))
    | D4 l -> of_uint_acc l (add (XO (XO XH)) (mul (XO (XI (XO XH))) acc))
    | D5 l -> of_uint_acc l (add (XI (XO XH)) (mul (XO (XI (XO XH))) acc))
    | D6 l -> of_uint_acc l (add (XO (XI XH)) (mul (XO (XI (XO XH))) acc))
    | D7 l -> of_uint_acc l (add (XI (XI XH)) (mul (XO (XI (XO XH))) acc))
    | D8 l ->
      of_uint_acc l (add (XO (XO (XO XH))) (mul (XO (XI (XO XH))) acc))
    | D9 l ->
      of_uint_acc l (add (XI (XO (XO XH))) (mul (XO (XI (XO XH))) acc))

  (** val of_uint : uint -> n **)

  let rec of_uint = function
  | Nil -> N0
  | D0 l -> of_uint l
  | D1 l -> Npos (of_uint_acc l XH)
  | D2 l -> Npos (of_uint_acc l (XO XH))
  | D3 l -> Npos (of_uint_acc l (XI XH))
  | D4 l -> Npos (of_uint_acc l (XO (XO XH)))
  | D5 l -> Npos (of_uint_acc l (XI (XO XH)))
  | D6 l -> Npos (of_uint_acc l (XO (XI XH)))
  | D7 l -> Npos (of_uint_acc l (XI (XI XH)))
  | D8 l -> Npos (of_uint_acc l (XO (XO (XO XH))))
  | D9 l -> Npos (of_uint_acc l (XI (XO (XO XH))))

  (** val to_little_uint : positive -> uint **)

  let rec to_little_uint = function
  | XI p0 -> Little.succ_double (to_little_uint p0)
  | XO p0 -> Little.double (to_little_uint p0)
  | XH -> D1 Nil

  (** val to_uint : positive -> uint **)

  let to_uint p =
    rev (to_little_uint p)
 end

module N =
 struct
  (** val add : n -> n -> n **)

  let add n0 m0 =
    match n0 with
    | N0 -> m0
    | Npos p -> (match m0 with
                 | N0 -> n0
                 | Npos q -> Npos (Coq_Pos.add p q))

  (** val sub : n -> n -> n **)

  let sub n0 m0 =
    match n0 with
    | N0 -> N0
    | Npos n' ->
      (match m0 with
       | N0 -> n0
       | Npos m' ->
         (match Coq_Pos.sub_mask n' m' with
          | Coq_Pos.IsPos p -> Npos p
          | _ -> N0))

  (** val compare : n -> n -> comparison **)

  let compare n0 m0 =
    match n0 with
    | N0 -> (match m0 with
             | N0 -> Eq
             | Npos _ -> Lt)
    | Npos n' -> (match m0 with
                  | N0 -> Gt
                  | Npos m' -> Coq_Pos.compare n' m')

  (** val eqb : n -> n -> bool **)

  let eqb n0 m0 =
    match n0 with
    | N0 -> (match m0 with
             | N0 -> true
             | Npos _ -> false)
    | Npos p -> (match m0 with
                 | N0 -> false
                 | Npos q -> Coq_Pos.eqb p q)

  (** val leb : n -> n -> bool **)

  let leb x y =
    match compare x y with
    | Gt -> false
    | _ -> true

  (** val ltb : n -> n -> bool **)

  let ltb x y =
    match compare x y with
    | Lt -> true
    | _ -> false

  (** val to_nat : n -> nat **)

  let to_nat = function
  | N0 -> O
  | Npos p -> Coq_Pos.to_nat p

  (** val of_nat : nat -> n **)

  let of_nat = function
  | O -> N0
  | S n' -> Npos (Coq_Pos.of_succ_nat n')

  (** val of_uint : uint -> n **)

  let of_uint =
    Coq_Pos.of_uint

  (** val to_uint : n -> uint **)

  let to_uint = function
  | N0 -> D0 Nil
  | Npos p -> Coq_Pos.to_uint p
 end

(** val hd_error : 'a1 list -> 'a1 option **)

let hd_error = function
| [] -> None
| x :: _ -> Some x

(** val nth_error : 'a1 list -> nat -> 'a1 option **)

let rec nth_error l = function
| O -> (match l with
        | [] -> None
        | x :: _ -> Some x)
| S n1 -> (match l with
           | [] -> None
           | _ :: l0 -> nth_error l0 n1)

(** val rev0 : 'a1 list -> 'a1 list **)

let rec rev0 = function
| [] -> []
| x :: l' -> app (rev0 l') (x :: [])

(** val concat : 'a1 list list -> 'a1 list **)

let rec concat = function
| [] -> []
| x :: l0 -> app x (concat l0)

(** val map : ('a1 -> 'a2) -> 'a1 list -> 'a2 list **)

let rec map f = function
| [] -> []
| a :: t -> (f a) :: (map f t)

(** val flat_map : ('a1 -> 'a2 list) -> 'a1 list -> 'a2 list **)

let rec flat_map f = function
| [] -> []
| x :: t -> app (f x) (flat_map f t)

(** val fold_left : ('a1 -> 'a2 -> 'a1) -> 'a2 list -> 'a1 -> 'a1 **)

let rec fold_left f l a0 =
  match l with
  | [] -> a0
  | b :: t -> fold_left f t (f a0 b)

(** val fold_right : ('a2 -> 'a1 -> 'a1) -> 'a1 -> 'a2 list -> 'a1 **)

let rec fold_right f a0 = function
| [] -> a0
| b :: t -> f b (fold_right f a0 t)

(** val existsb : ('a1 -> bool) -> 'a1 list -> bool **)

let rec existsb f = function
| [] -> false
| a :: l0 -> (||) (f a) (existsb f l0)

(** val forallb : ('a1 -> bool) -> 'a1 list -> bool **)

let rec forallb f = function
| [] -> true
| a :: l0 -> (&&) (f a) (forallb f l0)

(** val filter : ('a1 -> bool) -> 'a1 list -> 'a1 list **)

let rec filter f = function
| [] -> []
| x :: l0 -> if f x then x :: (filter f l0) else filter f l0

(** val seq : nat -> nat -> nat list **)

let rec seq start = function
| O -> []
| S len0 -> start :: (seq (S start) len0)

module Z =
 struct
  (** val eqb : z -> z -> bool **)

  let eqb x y =
    match x with
    | Z0 -> (match y with
             | Z0 -> true
             | _ -> false)
    | Zpos p -> (match y with
                 | Zpos q -> Coq_Pos.eqb p q
                 | _ -> false)
    | Zneg p -> (match y with
                 | Zneg q -> Coq_Pos.eqb p q
                 | _ -> false)

  (** val of_N : n -> z **)

  let of_N = function
  | N0 -> Z0
  | Npos p -> Zpos p
 end

type ascii =
| Ascii of bool * bool * bool * bool * bool * bool * bool * bool

(** val eqb0 : ascii -> ascii -> bool **)

let eqb0 a b =
  let Ascii (a0, a1, a2, a3, a4, a5, a6, a7) = a in
  let Ascii (b0, b1, b2, b3, b4, b5, b6, b7) = b in
  if if if if if if if eqb a0 b0 then eqb a1 b1 else false
                 then eqb a2 b2
                 else false
              then eqb a3 b3
              else false
           then eqb a4 b4
           else false
        then eqb a5 b5
        else false
     then eqb a6 b6
     else false
  then eqb a7 b7
  else false

type string =
| EmptyString
| String of ascii * string

(** val eqb1 : string -> string -> bool **)

let rec eqb1 s1 s2 =
  match s1 with
  | EmptyString ->
    (match s2 with
     | EmptyString -> true
     | String (_, _) -> false)
  | String (c1, s1') ->
    (match s2 with
     | EmptyString -> false
     | String (c2, s2') -> if eqb0 c1 c2 then eqb1 s1' s2' else false)

(** val append : string -> string -> string **)

let rec append s1 s2 =
  match s1 with
  | EmptyString -> s2
  | String (c, s1') -> String (c, (append s1' s2))

(** val uint_of_char : ascii -> uint option -> uint option **)

let uint_of_char a = function
| Some d0 ->
  let Ascii (b, b0, b1, b2, b3, b4, b5, b6) = a in
  if b
  then if b0
       then if b1
            then if b2
                 then None
                 else if b3
                      then if b4
                           then if b5
                                then None
                                else if b6 then None else Some (D7 d0)
                           else None
                      else None
            else if b2
                 then None
                 else if b3
                      then if b4
                           then if b5
                                then None
                                else if b6 then None else Some (D3 d0)
                           else None
                      else None
       else if b1
            then if b2
                 then None
                 else if b3
                      then if b4
                           then if b5
                                then None
                                else if b6 then None else Some (D5 d0)
                           else None
                      else None
            else if b2
                 then if b3
                      then if b4
                           then if b5
                                then None
                                else if b6 then None else Some (D9 d0)
                           else None
                      else None
                 else if b3
                      then if b4
                           then if b5
                                then None
                                else if b6 then None else Some (D1 d0)
                           else None
                      else None
  else if b0
       then if b1
            then if b2
                 then None
                 else if b3
                      then if b4
                           then if b5
                                then None
                                else if b6 then None else Some (D6 d0)
                           else None
                      else None
            else if b2
                 then None
                 else if b3
                      then if b4
                           then if b5
                                then None
                                else if b6 then None else Some (D2 d0)
                           else None
                      else None
       else if b1
            then if b2
                 then None
                 else if b3
                      then if b4
                           then if b5
                                then None
                                else if b6 then None else Some (D4 d0)
                           else None
                      else None
            else if b2
                 then if b3
                      then if b4
                           then if b5
                                then None
                                else if b6 then None else Some (D8 d0)
                           else None
                      else None
                 else if b3
                      then if b4
                           then if b5
                                then None
                                else if b6 then None else Some (D0 d0)
                           else None
                      else None
| None -> None

module NilEmpty =
 struct
  (** val string_of_uint : uint -> string **)

  let rec string_of_uint = function
  | Nil -> EmptyString
  | D0 d0 ->
    String ((Ascii (false, false, false, false, true, true, false, false)),
      (string_of_uint d0))
  | D1 d0 ->
    String ((Ascii (true, false, false, false, true, true, false, false)),
      (string_of_uint d0))
  | D2 d0 ->
    String ((Ascii (false, true, false, false, true, true, false, false)),
      (string_of_uint d0))
  | D3 d0 ->
    String ((Ascii (true, true, false, false, true, true, false, false)),
      (string_of_uint d0))
  | D4 d0 ->
    String ((Ascii (false, false, true, false, true, true, false, false)),
      (string_of_uint d0))
  | D5 d0 ->
    String ((Ascii (true, false, true, false, true, true, false, false)),
      (string_of_uint d0))
  | D6 d0 ->
    String ((Ascii (false, true, true, false, true, true, false, false)),
      (string_of_uint d0))
  | D7 d0 ->
    String ((Ascii (true, true, true, false, true, true, false, false)),
      (string_of_uint d0))
  | D8 d0 ->
    String ((Ascii (false, false, false, true, true, true, false, false)),
      (string_of_uint d0))
  | D9 d0 ->
    String ((Ascii (true, false, false, true, true, true, false, false)),
      (string_of_uint d0))

  (** val uint_of_string : string -> uint option **)

  let rec uint_of_string = function
  | EmptyString -> Some Nil
  | String (a, s0) -> uint_of_char a (uint_of_string s0)
 end

type ident = { iname : string; iline : n; ioff : n }

type loc = n * n

(** val iloc : ident -> loc **)

let iloc i =
  (i.iline, i.ioff)

(** val alookup : string -> (string * 'a1) list -> 'a1 option **)

let rec alookup k = function
| [] -> None
| p :: l' -> let (k', v) = p in if eqb1 k k' then Some v else alookup k l'

(** val ainsert :
    string -> 'a1 -> (string * 'a1) list -> (string * 'a1) list **)

let rec ainsert k v = function
| [] -> (k, v) :: []
| p :: l' ->
  let (k', v') = p in
  if eqb1 k k' then (k, v) :: l' else (k', v') :: (ainsert k v l')

(** val amem : string -> (string * 'a1) list -> bool **)

let amem k l =
  match alookup k l with
  | Some _ -> true
  | None -> false

(** val smem : string -> string list -> bool **)

let rec smem k = function
| [] -> false
| k' :: l' -> if eqb1 k k' then true else smem k l'

(** val sadd : string -> string list -> string list **)

let sadd k l =
  if smem k l then l else app l (k :: [])

(** val two64 : n **)

let two64 =
  Npos (XO (XO (XO (XO (XO (XO (XO (XO (XO (XO (XO (XO (XO (XO (XO (XO (XO
    (XO (XO (XO (XO (XO (XO (XO (XO (XO (XO (XO (XO (XO (XO (XO (XO (XO (XO
    (XO (XO (XO (XO (XO (XO (XO (XO (XO (XO (XO (XO (XO (XO (XO (XO (XO (XO
    (XO (XO (XO (XO (XO (XO (XO (XO (XO (XO (XO
    XH))))))))))))))))))))))))))))))))))))))))))))))))))))))))))))))))

(** val dec : n -> string **)

let dec n0 =
  NilEmpty.string_of_uint (N.to_uint n0)

(** val parse_u64_or_0 : string -> n **)

let parse_u64_or_0 s =
  let s' =
    match s with
    | EmptyString -> s
    | String (a, r) ->
      let Ascii (b, b0, b1, b2, b3, b4, b5, b6) = a in
      if b
      then if b0
           then if b1
                then s
                else if b2
                     then if b3
                          then s
                          else if b4
                               then if b5 then s else if b6 then s else r
                               else s
                     else s
           else s
      else s
  in
  (match s' with
   | EmptyString -> N0
   | String (_, _) ->
     (match NilEmpty.uint_of_string s' with
      | Some u -> let n0 = N.of_uint u in if N.ltb n0 two64 then n0 else N0
      | None -> N0))

(** val split_dot_aux : string -> string -> string list **)

let rec split_dot_aux cur = function
| EmptyString -> cur :: []
| String (c, r) ->
  if eqb0 c (Ascii (false, true, true, true, false, true, false, false))
  then cur :: (split_dot_aux EmptyString r)
  else split_dot_aux (append cur (String (c, EmptyString))) r

(** val split_dot : string -> string list **)

let split_dot s =
  split_dot_aux EmptyString s

(** val set_attr_counter : string -> string option **)

let set_attr_counter s =
  match split_dot s with
  | [] ->
    Some (String ((Ascii (false, true, true, true, false, true, false,
      false)), (String ((Ascii (false, false, false, false, true, true,
      false, false)), EmptyString))))
  | a :: l ->
    (match l with
     | [] ->
       Some
         (append a (String ((Ascii (false, true, true, true, false, true,
           false, false)), (String ((Ascii (false, false, false, false, true,
           true, false, false)), EmptyString)))))
     | b :: l0 ->
       (match l0 with
        | [] ->
          let i = parse_u64_or_0 b in
          if N.ltb (N.add i (Npos XH)) two64
          then Some
                 (append a
                   (append (String ((Ascii (false, true, true, true, false,
                     true, false, false)), EmptyString))
                     (dec (N.add i (Npos XH)))))
          else None
        | _ :: _ ->
          Some
            (append a (String ((Ascii (false, true, true, true, false, true,
              false, false)), (String ((Ascii (false, false, false, false,
              true, true, false, false)), EmptyString)))))))

(** val debug_escape : string -> string **)

let rec debug_escape = function
| EmptyString -> EmptyString
| String (c, r) ->
  if eqb0 c (Ascii (false, true, false, false, false, true, false, false))
  then String ((Ascii (false, false, true, true, true, false, true, false)),
         (String ((Ascii (false, true, false, false, false, true, false,
         false)), (debug_escape r))))
  else if eqb0 c (Ascii (false, false, true, true, true, false, true, false))
       then String ((Ascii (false, false, true, true, true, false, true,
              false)), (String ((Ascii (false, false, true, true, true,
              false, true, false)), (debug_escape r))))
       else String (c, (debug_escape r))

(** val debug_string : string -> string **)

let debug_string s =
  append (String ((Ascii (false, true, false, false, false, true, false,
    false)), EmptyString))
    (append (debug_escape s) (String ((Ascii (false, true, false, false,
      false, true, false, false)), EmptyString)))

type binop =
| OPlus
| OMinus
| OMultiply
| ODivide
| OShiftLeft
| OShiftRight
| OAnd
| OOr
| OXor
| OEq
| ONotEq
| OGreat
| OLess
| OGreatEq
| OLessEq

(** val binop_name : binop -> string **)

let binop_name = function
| OPlus ->
  String ((Ascii (false, false, false, false, true, false, true, false)),
    (String ((Ascii (false, false, true, true, false, true, true, false)),
    (String ((Ascii (true, false, true, false, true, true, true, false)),
    (String ((Ascii (true, true, false, false, true, true, true, false)),
    EmptyString)))))))
| OMinus ->
  String ((Ascii (true, false, true, true, false, false, true, false)),
    (String ((Ascii (true, false, false, true, false, true, true, false)),
    (String ((Ascii (false, true, true, true, false, true, true, false)),
    (String ((Ascii (true, false, true, false, true, true, true, false)),
    (String ((Ascii (true, true, false, false, true, true, true, false)),
    EmptyString)))))))))
| OMultiply ->
  String ((Ascii (true, false, true, true, false, false, true, false)),
    (String ((Ascii (true, false, true, false, true, true, true, false)),
    (String ((Ascii (false, false, true, true, false, true, true, false)),
    (String ((Ascii (false, false, true, false, true, true, true, false)),
    (String ((Ascii (true, false, false, true, false, true, true, false)),
    (String ((Ascii (false, false, false, false, true, true, true, false)),
    (String ((Ascii (false, false, true, true, false, true, true, false)),
    (String ((Ascii (true, false, false, true, true, true, true, false)),
    EmptyString)))))))))))))))
| ODivide ->
  String ((Ascii (false, false, true, false, false, false, true, false)),
    (String ((Ascii (true, false, false, true, false, true, true, false)),
    (String ((Ascii (false, true, true, false, true, true, true, false)),
    (String ((Ascii (true, false, false, true, false, true, true, false)),
    (String ((Ascii (false, false, true, false, false, true, true, false)),
    (String ((Ascii (true, false, true, false, false, true, true, false)),
    EmptyString)))))))))))
| OShiftLeft ->
  String ((Ascii (true, true, false, false, true, false, true, false)),
    (String ((Ascii (false, false, false, true, false, true, true, false)),
    (String ((Ascii (true, false, false, true, false, true, true, false)),
    (String ((Ascii (false, true, true, false, false, true, true, false)),
    (String ((Ascii (false, false, true, false, true, true, true, false)),
    (String ((Ascii (false, false, true, true, false, false, true, false)),
    (String ((Ascii (true, false, true, false, false, true, true, false)),
    (String ((Ascii (false, true, true, false, false, true, true, false)),
    (String ((Ascii (false, false, true, false, true, true, true, false)),
    EmptyString)))))))))))))))))
| OShiftRight ->
  String ((Ascii (true, true, false, false, true, false, true, false)),
    (String ((Ascii (false, false, false, true, false, true, true, false)),
    (String ((Ascii (true, false, false, true, false, true, true, false)),
    (String ((Ascii (false, true, true, false, false, true, true, false)),
    (String ((Ascii (false, false, true, false, true, true, true, false)),
    (String ((Ascii (false, true, false, false, true, false, true, false)),
    (String ((Ascii (true, false, false, true, false, true, true, false)),
    (String ((Ascii (true, true, true, false, false, true, true, false)),
    (String ((Ascii (false, false, false, true, false, true, true, false)),
    (String ((Ascii (false, false, true, false, true, true, true, false)),
    EmptyString)))))))))))))))))))
| OAnd ->
  String ((Ascii (true, false, false, false, false, false, true, false)),
    (String ((Ascii (false, true, true, true, false, true, true, false)),
    (String ((Ascii (false, false, true, false, false, true, true, false)),
    EmptyString)))))
| OOr ->
  String ((Ascii (true, true, true, true, false, false, true, false)),
    (String ((Ascii (false, true, false, false, true, true, true, false)),
    EmptyString)))
| OXor ->
  String ((Ascii (false, false, false, true, true, false, true, false)),
    (String ((Ascii (true, true, true, true, false, true, true, false)),
    (String ((Ascii (false, true, false, false, true, true, true, false)),
    EmptyString)))))
| OEq ->
  String ((Ascii (true, false, true, false, false, false, true, false)),
    (String ((Ascii (true, false, false, false, true, true, true, false)),
    EmptyString)))
| ONotEq ->
  String ((Ascii (false, true, true, true, false, false, true, false)),
    (String ((Ascii (true, true, true, true, false, true, true, false)),
    (String ((Ascii (false, false, true, false, true, true, true, false)),
    (String ((Ascii (true, false, true, false, false, false, true, false)),
    (String ((Ascii (true, false, false, false, true, true, true, false)),
    EmptyString)))))))))
| OGreat ->
  String ((Ascii (true, true, true, false, false, false, true, false)),
    (String ((Ascii (false, true, false, false, true, true, true, false)),
    (String ((Ascii (true, false, true, false, false, true, true, false)),
    (String ((Ascii (true, false, false, false, false, true, true, false)),
    (String ((Ascii (false, false, true, false, true, true, true, false)),
    EmptyString)))))))))
| OLess ->
  String ((Ascii (false, false, true, true, false, false, true, false)),
    (String ((Ascii (true, false, true, false, false, true, true, false)),
    (String ((Ascii (true, true, false, false, true, true, true, false)),
    (String ((Ascii (true, true, false, false, true, true, true, false)),
    EmptyString)))))))
| OGreatEq ->
  String ((Ascii (true, true, true, false, false, false, true, false)),
    (String ((Ascii (false, true, false, false, true, true, true, false)),
    (String ((Ascii (true, false, true, false, false, true, true, false)),
    (String ((Ascii (true, false, false, false, false, true, true, false)),
    (String ((Ascii (false, false, true, false, true, true, true, false)),
    (String ((Ascii (true, false, true, false, false, false, true, false)),
    (String ((Ascii (true, false, false, false, true, true, true, false)),
    EmptyString)))))))))))))
| OLessEq ->
  String ((Ascii (false, false, true, true, false, false, true, false)),
    (String ((Ascii (true, false, true, false, false, true, true, false)),
    (String ((Ascii (true, true, false, false, true, true, true, false)),
    (String ((Ascii (true, true, false, false, true, true, true, false)),
    (String ((Ascii (true, false, true, false, false, false, true, false)),
    (String ((Ascii (true, false, false, false, true, true, true, false)),
    EmptyString)))))))))))

type prim_ty =
| PU8
| PU16
| PU32
| PU64
| PI8
| PI16
| PI32
| PI64
| PF32
| PF64
| PBool
| PChar
| PPtr
| PNone

(** val prim_ty_name : prim_ty -> string **)

let prim_ty_name = function
| PU8 ->
  String ((Ascii (true, false, true, false, true, false, true, false)),
    (String ((Ascii (false, false, false, true, true, true, false, false)),
    EmptyString)))
| PU16 ->
  String ((Ascii (true, false, true, false, true, false, true, false)),
    (String ((Ascii (true, false, false, false, true, true, false, false)),
    (String ((Ascii (false, true, true, false, true, true, false, false)),
    EmptyString)))))
| PU32 ->
  String ((Ascii (true, false, true, false, true, false, true, false)),
    (String ((Ascii (true, true, false, false, true, true, false, false)),
    (String ((Ascii (false, true, false, false, true, true, false, false)),
    EmptyString)))))
| PU64 ->
  String ((Ascii (true, false, true, false, true, false, true, false)),
    (String ((Ascii (false, true, true, false, true, true, false, false)),
    (String ((Ascii (false, false, true, false, true, true, false, false)),
    EmptyString)))))
| PI8 ->
  String ((Ascii (true, false, false, true, false, false, true, false)),
    (String ((Ascii (false, false, false, true, true, true, false, false)),
    EmptyString)))
| PI16 ->
  String ((Ascii (true, false, false, true, false, false, true, false)),
    (String ((Ascii (true, false, false, false, true, true, false, false)),
    (String ((Ascii (false, true, true, false, true, true, false, false)),
    EmptyString)))))
| PI32 ->
  String ((Ascii (true, false, false, true, false, false, true, false)),
    (String ((Ascii (true, true, false, false, true, true, false, false)),
    (String ((Ascii (false, true, false, false, true, true, false, false)),
    EmptyString)))))
| PI64 ->
  String ((Ascii (true, false, false, true, false, false, true, false)),
    (String ((Ascii (false, true, true, false, true, true, false, false)),
    (String ((Ascii (false, false, true, false, true, true, false, false)),
    EmptyString)))))
| PF32 ->
  String ((Ascii (false, true, true, false, false, false, true, false)),
    (String ((Ascii (true, true, false, false, true, true, false, false)),
    (String ((Ascii (false, true, false, false, true, true, false, false)),
    EmptyString)))))
| PF64 ->
  String ((Ascii (false, true, true, false, false, false, true, false)),
    (String ((Ascii (false, true, true, false, true, true, false, false)),
    (String ((Ascii (false, false, true, false, true, true, false, false)),
    EmptyString)))))
| PBool ->
  String ((Ascii (false, true, false, false, false, false, true, false)),
    (String ((Ascii (true, true, true, true, false, true, true, false)),
    (String ((Ascii (true, true, true, true, false, true, true, false)),
    (String ((Ascii (false, false, true, true, false, true, true, false)),
    EmptyString)))))))
| PChar ->
  String ((Ascii (true, true, false, false, false, false, true, false)),
    (String ((Ascii (false, false, false, true, false, true, true, false)),
    (String ((Ascii (true, false, false, false, false, true, true, false)),
    (String ((Ascii (false, true, false, false, true, true, true, false)),
    EmptyString)))))))
| PPtr ->
  String ((Ascii (false, false, false, false, true, false, true, false)),
    (String ((Ascii (false, false, true, false, true, true, true, false)),
    (String ((Ascii (false, true, false, false, true, true, true, false)),
    EmptyString)))))
| PNone ->
  String ((Ascii (false, true, true, true, false, false, true, false)),
    (String ((Ascii (true, true, true, true, false, true, true, false)),
    (String ((Ascii (false, true, true, true, false, true, true, false)),
    (String ((Ascii (true, false, true, false, false, true, true, false)),
    EmptyString)))))))

type cmpop =
| CGreat
| CLess
| CEq
| CGreatEq
| CLessEq
| CNotEq

(** val cmpop_name : cmpop -> string **)

let cmpop_name = function
| CGreat ->
  String ((Ascii (true, true, true, false, false, false, true, false)),
    (String ((Ascii (false, true, false, false, true, true, true, false)),
    (String ((Ascii (true, false, true, false, false, true, true, false)),
    (String ((Ascii (true, false, false, false, false, true, true, false)),
    (String ((Ascii (false, false, true, false, true, true, true, false)),
    EmptyString)))))))))
| CLess ->
  String ((Ascii (false, false, true, true, false, false, true, false)),
    (String ((Ascii (true, false, true, false, false, true, true, false)),
    (String ((Ascii (true, true, false, false, true, true, true, false)),
    (String ((Ascii (true, true, false, false, true, true, true, false)),
    EmptyString)))))))
| CEq ->
  String ((Ascii (true, false, true, false, false, false, true, false)),
    (String ((Ascii (true, false, false, false, true, true, true, false)),
    EmptyString)))
| CGreatEq ->
  String ((Ascii (true, true, true, false, false, false, true, false)),
    (String ((Ascii (false, true, false, false, true, true, true, false)),
    (String ((Ascii (true, false, true, false, false, true, true, false)),
    (String ((Ascii (true, false, false, false, false, true, true, false)),
    (String ((Ascii (false, false, true, false, true, true, true, false)),
    (String ((Ascii (true, false, true, false, false, false, true, false)),
    (String ((Ascii (true, false, false, false, true, true, true, false)),
    EmptyString)))))))))))))
| CLessEq ->
  String ((Ascii (false, false, true, true, false, false, true, false)),
    (String ((Ascii (true, false, true, false, false, true, true, false)),
    (String ((Ascii (true, true, false, false, true, true, true, false)),
    (String ((Ascii (true, true, false, false, true, true, true, false)),
    (String ((Ascii (true, false, true, false, false, false, true, false)),
    (String ((Ascii (true, false, false, false, true, true, true, false)),
    EmptyString)))))))))))
| CNotEq ->
  String ((Ascii (false, true, true, true, false, false, true, false)),
    (String ((Ascii (true, true, true, true, false, true, true, false)),
    (String ((Ascii (false, false, true, false, true, true, true, false)),
    (String ((Ascii (true, false, true, false, false, false, true, false)),
    (String ((Ascii (true, false, false, false, true, true, true, false)),
    EmptyString)))))))))

type logicop =
| LAnd
| LOr

(** val logicop_name : logicop -> string **)

let logicop_name = function
| LAnd ->
  String ((Ascii (true, false, false, false, false, false, true, false)),
    (String ((Ascii (false, true, true, true, false, true, true, false)),
    (String ((Ascii (false, false, true, false, false, true, true, false)),
    EmptyString)))))
| LOr ->
  String ((Ascii (true, true, true, true, false, false, true, false)),
    (String ((Ascii (false, true, false, false, true, true, true, false)),
    EmptyString)))

type err_kind =
| ECommon
| EConstantAlreadyExist
| EConstantNotFound
| EWrongLetType
| EWrongExpressionType
| ETypeAlreadyExist
| EFunctionAlreadyExist
| EValueNotFound
| EValueNotStruct
| EValueNotStructField
| EValueIsNotMutable
| EFunctionNotFound
| EFunctionParameterTypeWrong
| EReturnNotFound
| EReturnAlreadyCalled
| EIfElseDuplicated
| ETypeNotFound
| EWrongReturnType
| EConditionExpressionWrongType
| EConditionIsEmpty
| EConditionExpressionNotSupported
| EForbiddenCodeAfterReturnDeprecated
| EForbiddenCodeAfterContinueDeprecated
| EForbiddenCodeAfterBreakDeprecated
| EFunctionArgumentNameDuplicated

(** val err_kind_name : err_kind -> string **)

let err_kind_name = function
| ECommon ->
  String ((Ascii (true, true, false, false, false, false, true, false)),
    (String ((Ascii (true, true, true, true, false, true, true, false)),
    (String ((Ascii (true, false, true, true, false, true, true, false)),
    (String ((Ascii (true, false, true, true, false, true, true, false)),
    (String ((Ascii (true, true, true, true, false, true, true, false)),
    (String ((Ascii (false, true, true, true, false, true, true, false)),
    EmptyString)))))))))))
| EConstantAlreadyExist ->
  String ((Ascii (true, true, false, false, false, false, true, false)),
    (String ((Ascii (true, true, true, true, false, true, true, false)),
    (String ((Ascii (false, true, true, true, false, true, true, false)),
    (String ((Ascii (true, true, false, false, true, true, true, false)),
    (String ((Ascii (false, false, true, false, true, true, true, false)),
    (String ((Ascii (true, false, false, false, false, true, true, false)),
    (String ((Ascii (false, true, true, true, false, true, true, false)),
    (String ((Ascii (false, false, true, false, true, true, true, false)),
    (String ((Ascii (true, false, false, false, false, false, true, false)),
    (String ((Ascii (false, false, true, true, false, true, true, false)),
    (String ((Ascii (false, true, false, false, true, true, true, false)),
    (String ((Ascii (true, false, true, false, false, true, true, false)),
    (String ((Ascii (true, false, false, false, false, true, true, false)),
    (String ((Ascii (false, false, true, false, false, true, true, false)),
    (String ((Ascii (true, false, false, true, true, true, true, false)),
    (String ((Ascii (true, false, true, false, false, false, true, false)),
    (String ((Ascii (false, false, false, true, true, true, true, false)),
    (String ((Ascii (true, false, false, true, false, true, true, false)),
    (String ((Ascii (true, true, false, false, true, true, true, false)),
    (String ((Ascii (false, false, true, false, true, true, true, false)),
    EmptyString)))))))))))))))))))))))))))))))))))))))
| EConstantNotFound ->
  String ((Ascii (true, true, false, false, false, false, true, false)),
    (String ((Ascii (true, true, true, true, false, true, true, false)),
    (String ((Ascii (false, true, true, true, false, true, true, false)),
    (String ((Ascii (true, true, false, false, true, true, true, false)),
    (String ((Ascii (false, false, true, false, true, true, true, false)),
    (String ((Ascii (true, false, false, false, false, true, true, false)),
    (String ((Ascii (false, true, true, true, false, true, true, false)),
    (String ((Ascii (false, false, true, false, true, true, true, false)),
    (String ((Ascii (false, true, true, true, false, false, true, false)),
    (String ((Ascii (true, true, true, true, false, true, true, false)),
    (String ((Ascii (false, false, true, false, true, true, true, false)),
    (String ((Ascii (false, true, true, false, false, false, true, false)),
    (String ((Ascii (true, true, true, true, false, true, true, false)),
    (String ((Ascii (true, false, true, false, true, true, true, false)),
    (String ((Ascii (false, true, true, true, false, true, true, false)),
    (String ((Ascii (false, false, true, false, false, true, true, false)),
    EmptyString)))))))))))))))))))))))))))))))
| EWrongLetType ->
  String ((Ascii (true, true, true, false, true, false, true, false)),
    (String ((Ascii (false, true, false, false, true, true, true, false)),
    (String ((Ascii (true, true, true, true, false, true, true, false)),
    (String ((Ascii (false, true, true, true, false, true, true, false)),
    (String ((Ascii (true, true, true, false, false, true, true, false)),
    (String ((Ascii (false, false, true, true, false, false, true, false)),
    (String ((Ascii (true, false, true, false, false, true, true, false)),
    (String ((Ascii (false, false, true, false, true, true, true, false)),
    (String ((Ascii (false, false, true, false, true, false, true, false)),
    (String ((Ascii (true, false, false, true, true, true, true, false)),
    (String ((Ascii (false, false, false, false, true, true, true, false)),
    (String ((Ascii (true, false, true, false, false, true, true, false)),
    EmptyString)))))))))))))))))))))))
| EWrongExpressionType ->
  String ((Ascii (true, true, true, false, true, false, true, false)),
    (String ((Ascii (false, true, false, false, true, true, true, false)),
    (String ((Ascii (true, true, true, true, false, true, true, false)),
    (String ((Ascii (false, true, true, true, false, true, true, false)),
    (String ((Ascii (true, true, true, false, false, true, true, false)),
    (String ((Ascii (true, false, true, false, false, false, true, false)),
    (String ((Ascii (false, false, false, true, true, true, true, false)),
    (String ((Ascii (false, false, false, false, true, true, true, false)),
    (String ((Ascii (false, true, false, false, true, true, true, false)),
    (String ((Ascii (true, false, true, false, false, true, true, false)),
    (String ((Ascii (true, true, false, false, true, true, true, false)),
    (String ((Ascii (true, true, false, false, true, true, true, false)),
    (String ((Ascii (true, false, false, true, false, true, true, false)),
    (String ((Ascii (true, true, true, true, false, true, true, false)),
    (String ((Ascii (false, true, true, true, false, true, true, false)),
    (String ((Ascii (false, false, true, false, true, false, true, false)),
    (String ((Ascii (true, false, false, true, true, true, true, false)),
    (String ((Ascii (false, false, false, false, true, true, true, false)),
    (String ((Ascii (true, false, true, false, false, true, true, false)),
    EmptyString)))))))))))))))))))))))))))))))))))))
| ETypeAlreadyExist ->
  String ((Ascii (false, false, true, false, true, false, true, false)),
    (String ((Ascii (true, false, false, true, true, true, true, false)),
    (String ((Ascii (false, false, false, false, true, true, true, false)),
    (String ((Ascii (true, false, true, false, false, true, true, false)),
    (String ((Ascii (true, false, false, false, false, false, true, false)),
    (String ((Ascii (false, false, true, true, false, true, true, false)),
    (String ((Ascii (false, true, false, false, true, true, true, false)),
    (String ((Ascii (true, false, true, false, false, true, true, false)),
    (String ((Ascii (true, false, false, false, false, true, true, false)),
    (String ((Ascii (false, false, true, false, false, true, true, false)),
    (String ((Ascii (true, false, false, true, true, true, true, false)),
    (String ((Ascii (true, false, true, false, false, false, true, false)),
    (String ((Ascii (false, false, false, true, true, true, true, false)),
    (String ((Ascii (true, false, false, true, false, true, true, false)),
    (String ((Ascii (true, true, false, false, true, true, true, false)),
    (String ((Ascii (false, false, true, false, true, true, true, false)),
    EmptyString)))))))))))))))))))))))))))))))
| EFunctionAlreadyExist ->
  String ((Ascii (false, true, true, false, false, false, true, false)),
    (String ((Ascii (true, false, true, false, true, true, true, false)),
    (String ((Ascii (false, true, true, true, false, true, true, false)),
    (String ((Ascii (true, true, false, false, false, true, true, false)),
    (String ((Ascii (false, false, true, false, true, true, true, false)),
    (String ((Ascii (true, false, false, true, false, true, true, false)),
    (String ((Ascii (true, true, true, true, false, true, true, false)),
    (String ((Ascii (false, true, true, true, false, true, true, false)),
    (String ((Ascii (true, false, false, false, false, false, true, false)),
    (String ((Ascii (false, false, true, true, false, true, true, false)),
    (String ((Ascii (false, true, false, false, true, true, true, false)),
    (String ((Ascii (true, false, true, false, false, true, true, false)),
    (String ((Ascii (true, false, false, false, false, true, true, false)),
    (String ((Ascii (false, false, true, false, false, true, true, false)),
    (String ((Ascii (true, false, false, true, true, true, true, false)),
    (String ((Ascii (true, false, true, false, false, false, true, false)),
    (String ((Ascii (false, false, false, true, true, true, true, false)),
    (String ((Ascii (true, false, false, true, false, true, true, false)),
    (String ((Ascii (true, true, false, false, true, true, true, false)),
    (String ((Ascii (false, false, true, false, true, true, true, false)),
    EmptyString)))))))))))))))))))))))))))))))))))))))
| EValueNotFound ->
  String ((Ascii (false, true, true, false, true, false, true, false)),
    (String ((Ascii (true, false, false, false, false, true, true, false)),
    (String ((Ascii (false, false, true, true, false, true, true, false)),
    (String ((Ascii (true, false, true, false, true, true, true, false)),
    (String ((Ascii (true, false, true, false, false, true, true, false)),
    (String ((Ascii (false, true, true, true, false, false, true, false)),
    (String ((Ascii (true, true, true, true, false, true, true, false)),
    (String ((Ascii (false, false, true, false, true, true, true, false)),
    (String ((Ascii (false, true, true, false, false, false, true, false)),
    (String ((Ascii (true, true, true, true, false, true, true, false)),
    (String ((Ascii (true, false, true, false, true, true, true, false)),
    (String ((Ascii (false, true, true, true, false, true, true, false)),
    (String ((Ascii (false, false, true, false, false, true, true, false)),
    EmptyString)))))))))))))))))))))))))
| EValueNotStruct ->
  String ((Ascii (false, true, true, false, true, false, true, false)),
    (String ((Ascii (true, false, false, false, false, true, true, false)),
    (String ((Ascii (false, false, true, true, false, true, true, false)),
    (String ((Ascii (true, false, true, false, true, true, true, false)),
    (String ((Ascii (true, false, true, false, false, true, true, false)),
    (String ((Ascii (false, true, true, true, false, false, true, false)),
    (String ((Ascii (true, true, true, true, false, true, true, false)),
    (String ((Ascii (false, false, true, false, true, true, true, false)),
    (String ((Ascii (true, true, false, false, true, false, true, false)),
    (String ((Ascii (false, false, true, false, true, true, true, false)),
    (String ((Ascii (false, true, false, false, true, true, true, false)),
    (String ((Ascii (true, false, true, false, true, true, true, false)),
    (String ((Ascii (true, true, false, false, false, true, true, false)),
    (String ((Ascii (false, false, true, false, true, true, true, false)),
    EmptyString)))))))))))))))))))))))))))
| EValueNotStructField ->
  String ((Ascii (false, true, true, false, true, false, true, false)),
    (String ((Ascii (true, false, false, false, false, true, true, false)),
    (String ((Ascii (false, false, true, true, false, true, true, false)),
    (String ((Ascii (true, false, true, false, true, true, true, false)),
    (String ((Ascii (true, false, true, false, false, true, true, false)),
    (String ((Ascii (false, true, true, true, false, false, true, false)),
    (String ((Ascii (true, true, true, true, false, true, true, false)),
    (String ((Ascii (false, false, true, false, true, true, true, false)),
    (String ((Ascii (true, true, false, false, true, false, true, false)),
    (String ((Ascii (false, false, true, false, true, true, true, false)),
    (String ((Ascii (false, true, false, false, true, true, true, false)),
    (String ((Ascii (true, false, true, false, true, true, true, false)),
    (String ((Ascii (true, true, false, false, false, true, true, false)),
    (String ((Ascii (false, false, true, false, true, true, true, false)),
    (String ((Ascii (false, true, true, false, false, false, true, false)),
    (String ((Ascii (true, false, false, true, false, true, true, false)),
    (String ((Ascii (true, false, true, false, false, true, true, false)),
    (String ((Ascii (false, false, true, true, false, true, true, false)),
    (String ((Ascii (false, false, true, false, false, true, true, false)),
    EmptyString)))))))))))))))))))))))))))))))))))))
| EValueIsNotMutable ->
  String ((Ascii (false, true, true, false, true, false, true, false)),
    (String ((Ascii (true, false, false, false, false, true, true, false)),
    (String ((Ascii (false, false, true, true, false, true, true, false)),
    (String ((Ascii (true, false, true, false, true, true, true, false)),
    (String ((Ascii (true, false, true, false, false, true, true, false)),
    (String ((Ascii (true, false, false, true, false, false, true, false)),
    (String ((Ascii (true, true, false, false, true, true, true, false)),
    (String ((Ascii (false, true, true, true, false, false, true, false)),
    (String ((Ascii (true, true, true, true, false, true, true, false)),
    (String ((Ascii (false, false, true, false, true, true, true, false)),
    (String ((Ascii (true, false, true, true, false, false, true, false)),
    (String ((Ascii (true, false, true, false, true, true, true, false)),
    (String ((Ascii (false, false, true, false, true, true, true, false)),
    (String ((Ascii (true, false, false, false, false, true, true, false)),
    (String ((Ascii (false, true, false, false, false, true, true, false)),
    (String ((Ascii (false, false, true, true, false, true, true, false)),
    (String ((Ascii (true, false, true, false, false, true, true, false)),
    EmptyString)))))))))))))))))))))))))))))))))
| EFunctionNotFound ->
  String ((Ascii (false, true, true, false, false, false, true, false)),
    (String ((Ascii (true, false, true, false, true, true, true, false)),
    (String ((Ascii (false, true, true, true, false, true, true, false)),
    (String ((Ascii (true, true, false, false, false, true, true, false)),
    (String ((Ascii (false, false, true, false, true, true, true, false)),
    (String ((Ascii (true, false, false, true, false, true, true, false)),
    (String ((Ascii (true, true, true, true, false, true, true, false)),
    (String ((Ascii (false, true, true, true, false, true, true, false)),
    (String ((Ascii (false, true, true, true, false, false, true, false)),
    (String ((Ascii (true, true, true, true, false, true, true, false)),
    (String ((Ascii (false, false, true, false, true, true, true, false)),
    (String ((Ascii (false, true, true, false, false, false, true, false)),
    (String ((Ascii (true, true, true, true, false, true, true, false)),
    (String ((Ascii (true, false, true, false, true, true, true, false)),
    (String ((Ascii (false, true, true, true, false, true, true, false)),
    (String ((Ascii (false, false, true, false, false, true, true, false)),
    EmptyString)))))))))))))))))))))))))))))))
| EFunctionParameterTypeWrong ->
  String ((Ascii (false, true, true, false, false, false, true, false)),
    (String ((Ascii (true, false, true, false, true, true, true, false)),
    (String ((Ascii (false, true, true, true, false, true, true, false)),
    (String ((Ascii (true, true, false, false, false, true, true, false)),
    (String ((Ascii (false, false, true, false, true, true, true, false)),
    (String ((Ascii (true, false, false, true, false, true, true, false)),
    (String ((Ascii (true, true, true, true, false, true, true, false)),
    (String ((Ascii (false, true, true, true, false, true, true, false)),
    (String ((Ascii (false, false, false, false, true, false, true, false)),
    (String ((Ascii (true, false, false, false, false, true, true, false)),
    (String ((Ascii (false, true, false, false, true, true, true, false)),
    (String ((Ascii (true, false, false, false, false, true, true, false)),
    (String ((Ascii (true, false, true, true, false, true, true, false)),
    (String ((Ascii (true, false, true, false, false, true, true, false)),
    (String ((Ascii (false, false, true, false, true, true, true, false)),
    (String ((Ascii (true, false, true, false, false, true, true, false)),
    (String ((Ascii (false, true, false, false, true, true, true, false)),
    (String ((Ascii (false, false, true, false, true, false, true, false)),
    (String ((Ascii (true, false, false, true, true, true, true, false)),
    (String ((Ascii (false, false, false, false, true, true, true, false)),
    (String ((Ascii (true, false, true, false, false, true, true, false)),
    (String ((Ascii (true, true, true, false, true, false, true, false)),
    (String ((Ascii (false, true, false, false, true, true, true, false)),
    (String ((Ascii (true, true, true, true, false, true, true, false)),
    (String ((Ascii (false, true, true, true, false, true, true, false)),
    (String ((Ascii (true, true, true, false, false, true, true, false)),
    EmptyString)))))))))))))))))))))))))))))))))))))))))))))))))))
| EReturnNotFound ->
  String ((Ascii (false, true, false, false, true, false, true, false)),
    (String ((Ascii (true, false, true, false, false, true, true, false)),
    (String ((Ascii (false, false, true, false, true, true, true, false)),
    (String ((Ascii (true, false, true, false, true, true, true, false)),
    (String ((Ascii (false, true, false, false, true, true, true, false)),
    (String ((Ascii (false, true, true, true, false, true, true, false)),
    (String ((Ascii (false, true, true, true, false, false, true, false)),
    (String ((Ascii (true, true, true, true, false, true, true, false)),
    (String ((Ascii (false, false, true, false, true, true, true, false)),
    (String ((Ascii (false, true, true, false, false, false, true, false)),
    (String ((Ascii (true, true, true, true, false, true, true, false)),
    (String ((Ascii (true, false, true, false, true, true, true, false)),
    (String ((Ascii (false, true, true, true, false, true, true, false)),
    (String ((Ascii (false, false, true, false, false, true, true, false)),
    EmptyString)))))))))))))))))))))))))))
| EReturnAlreadyCalled ->
  String ((Ascii (false, true, false, false, true, false, true, false)),
    (String ((Ascii (true, false, true, false, false, true, true, false)),
    (String ((Ascii (false, false, true, false, true, true, true, false)),
    (String ((Ascii (true, false, true, false, true, true, true, false)),
    (String ((Ascii (false, true, false, false, true, true, true, false)),
    (String ((Ascii (false, true, true, true, false, true, true, false)),
    (String ((Ascii (true, false, false, false, false, false, true, false)),
    (String ((Ascii (false, false, true, true, false, true, true, false)),
    (String ((Ascii (false, true, false, false, true, true, true, false)),
    (String ((Ascii (true, false, true, false, false, true, true, false)),
    (String ((Ascii (true, false, false, false, false, true, true, false)),
    (String ((Ascii (false, false, true, false, false, true, true, false)),
    (String ((Ascii (true, false, false, true, true, true, true, false)),
    (String ((Ascii (true, true, false, false, false, false, true, false)),
    (String ((Ascii (true, false, false, false, false, true, true, false)),
    (String ((Ascii (false, false, true, true, false, true, true, false)),
    (String ((Ascii (false, false, true, true, false, true, true, false)),
    (String ((Ascii (true, false, true, false, false, true, true, false)),
    (String ((Ascii (false, false, true, false, false, true, true, false)),
    EmptyString)))))))))))))))))))))))))))))))))))))
| EIfElseDuplicated ->
  String ((Ascii (true, false, false, true, false, false, true, false)),
    (String ((Ascii (false, true, true, false, false, true, true, false)),
    (String ((Ascii (true, false, true, false, false, false, true, false)),
    (String ((Ascii (false, false, true, true, false, true, true, false)),
    (String ((Ascii (true, true, false, false, true, true, true, false)),
    (String ((Ascii (true, false, true, false, false, true, true, false)),
    (String ((Ascii (false, false, true, false, false, false, true, false)),
    (String ((Ascii (true, false, true, false, true, true, true, false)),
    (String ((Ascii (false, false, false, false, true, true, true, false)),
    (String ((Ascii (false, false, true, true, false, true, true, false)),
    (String ((Ascii (true, false, false, true, false, true, true, false)),
    (String ((Ascii (true, true, false, false, false, true, true, false)),
    (String ((Ascii (true, false, false, false, false, true, true, false)),
    (String ((Ascii (false, false, true, false, true, true, true, false)),
    (String ((Ascii (true, false, true, false, false, true, true, false)),
    (String ((Ascii (false, false, true, false, false, true, true, false)),
    EmptyString)))))))))))))))))))))))))))))))
| ETypeNotFound ->
  String ((Ascii (false, false, true, false, true, false, true, false)),
    (String ((Ascii (true, false, false, true, true, true, true, false)),
    (String ((Ascii (false, false, false, false, true, true, true, false)),
    (String ((Ascii (true, false, true, false, false, true, true, false)),
    (String ((Ascii (false, true, true, true, false, false, true, false)),
    (String ((Ascii (true, true, true, true, false, true, true, false)),
    (String ((Ascii (false, false, true, false, true, true, true, false)),
    (String ((Ascii (false, true, true, false, false, false, true, false)),
    (String ((Ascii (true, true, true, true, false, true, true, false)),
    (String ((Ascii (true, false, true, false, true, true, true, false)),
    (String ((Ascii (false, true, true, true, false, true, true, false)),
    (String ((Ascii (false, false, true, false, false, true, true, false)),
    EmptyString)))))))))))))))))))))))
| EWrongReturnType ->
  String ((Ascii (true, true, true, false, true, false, true, false)),
    (String ((Ascii (false, true, false, false, true, true, true, false)),
    (String ((Ascii (true, true, true, true, false, true, true, false)),
    (String ((Ascii (false, true, true, true, false, true, true, false)),
    (String ((Ascii (true, true, true, false, false, true, true, false)),
    (String ((Ascii (false, true, false, false, true, false, true, false)),
    (String ((Ascii (true, false, true, false, false, true, true, false)),
    (String ((Ascii (false, false, true, false, true, true, true, false)),
    (String ((Ascii (true, false, true, false, true, true, true, false)),
    (String ((Ascii (false, true, false, false, true, true, true, false)),
    (String ((Ascii (false, true, true, true, false, true, true, false)),
    (String ((Ascii (false, false, true, false, true, false, true, false)),
    (String ((Ascii (true, false, false, true, true, true, true, false)),
    (String ((Ascii (false, false, false, false, true, true, true, false)),
    (String ((Ascii (true, false, true, false, false, true, true, false)),
    EmptyString)))))))))))))))))))))))))))))
| EConditionExpressionWrongType ->
  String ((Ascii (true, true, false, false, false, false, true, false)),
    (String ((Ascii (true, true, true, true, false, true, true, false)),
    (String ((Ascii (false, true, true, true, false, true, true, false)),
    (String ((Ascii (false, false, true, false, false, true, true, false)),
    (String ((Ascii (true, false, false, true, false, true, true, false)),
    (String ((Ascii (false, false, true, false, true, true, true, false)),
    (String ((Ascii (true, false, false, true, false, true, true, false)),
    (String ((Ascii (true, true, true, true, false, true, true, false)),
    (String ((Ascii (false, true, true, true, false, true, true, false)),
    (String ((Ascii (true, false, true, false, false, false, true, false)),
    (String ((Ascii (false, false, false, true, true, true, true, false)),
    (String ((Ascii (false, false, false, false, true, true, true, false)),
    (String ((Ascii (false, true, false, false, true, true, true, false)),
    (String ((Ascii (true, false, true, false, false, true, true, false)),
    (String ((Ascii (true, true, false, false, true, true, true, false)),
    (String ((Ascii (true, true, false, false, true, true, true, false)),
    (String ((Ascii (true, false, false, true, false, true, true, false)),
    (String ((Ascii (true, true, true, true, false, true, true, false)),
    (String ((Ascii (false, true, true, true, false, true, true, false)),
    (String ((Ascii (true, true, true, false, true, false, true, false)),
    (String ((Ascii (false, true, false, false, true, true, true, false)),
    (String ((Ascii (true, true, true, true, false, true, true, false)),
    (String ((Ascii (false, true, true, true, false, true, true, false)),
    (String ((Ascii (true, true, true, false, false, true, true, false)),
    (String ((Ascii (false, false, true, false, true, false, true, false)),
    (String ((Ascii (true, false, false, true, true, true, true, false)),
    (String ((Ascii (false, false, false, false, true, true, true, false)),
    (String ((Ascii (true, false, true, false, false, true, true, false)),
    EmptyString)))))))))))))))))))))))))))))))))))))))))))))))))))))))
| EConditionIsEmpty ->
  String ((Ascii (true, true, false, false, false, false, true, false)),
    (String ((Ascii (true, true, true, true, false, true, true, false)),
    (String ((Ascii (false, true, true, true, false, true, true, false)),
    (String ((Ascii (false, false, true, false, false, true, true, false)),
    (String ((Ascii (true, false, false, true, false, true, true, false)),
    (String ((Ascii (false, false, true, false, true, true, true, false)),
    (String ((Ascii (true, false, false, true, false, true, true, false)),
    (String ((Ascii (true, true, true, true, false, true, true, false)),
    (String ((Ascii (false, true, true, true, false, true, true, false)),
    (String ((Ascii (true, false, false, true, false, false, true, false)),
    (String ((Ascii (true, true, false, false, true, true, true, false)),
    (String ((Ascii (true, false, true, false, false, false, true, false)),
    (String ((Ascii (true, false, true, true, false, true, true, false)),
    (String ((Ascii (false, false, false, false, true, true, true, false)),
    (String ((Ascii (false, false, true, false, true, true, true, false)),
    (String ((Ascii (true, false, false, true, true, true, true, false)),
    EmptyString)))))))))))))))))))))))))))))))
| EConditionExpressionNotSupported ->
  String ((Ascii (true, true, false, false, false, false, true, false)),
    (String ((Ascii (true, true, true, true, false, true, true, false)),
    (String ((Ascii (false, true, true, true, false, true, true, false)),
    (String ((Ascii (false, false, true, false, false, true, true, false)),
    (String ((Ascii (true, false, false, true, false, true, true, false)),
    (String ((Ascii (false, false, true, false, true, true, true, false)),
    (String ((Ascii (true, false, false, true, false, true, true, false)),
    (String ((Ascii (true, true, true, true, false, true, true, false)),
    (String ((Ascii (false, true, true, true, false, true, true, false)),
    (String ((Ascii (true, false, true, false, false, false, true, false)),
    (String ((Ascii (false, false, false, true, true, true, true, false)),
    (String ((Ascii (false, false, false, false, true, true, true, false)),
    (String ((Ascii (false, true, false, false, true, true, true, false)),
    (String ((Ascii (true, false, true, false, false, true, true, false)),
    (String ((Ascii (true, true, false, false, true, true, true, false)),
    (String ((Ascii (true, true, false, false, true, true, true, false)),
    (String ((Ascii (true, false, false, true, false, true, true, false)),
    (String ((Ascii (true, true, true, true, false, true, true, false)),
    (String ((Ascii (false, true, true, true, false, true, true, false)),
    (String ((Ascii (false, true, true, true, false, false, true, false)),
    (String ((Ascii (true, true, true, true, false, true, true, false)),
    (String ((Ascii (false, false, true, false, true, true, true, false)),
    (String ((Ascii (true, true, false, false, true, false, true, false)),
    (String ((Ascii (true, false, true, false, true, true, true, false)),
    (String ((Ascii (false, false, false, false, true, true, true, false)),
    (String ((Ascii (false, false, false, false, true, true, true, false)),
    (String ((Ascii (true, true, true, true, false, true, true, false)),
    (String ((Ascii (false, true, false, false, true, true, true, false)),
    (String ((Ascii (false, false, true, false, true, true, true, false)),
    (String ((Ascii (true, false, true, false, false, true, true, false)),
    (String ((Ascii (false, false, true, false, false, true, true, false)),
    EmptyString)))))))))))))))))))))))))))))))))))))))))))))))))))))))))))))
| EForbiddenCodeAfterReturnDeprecated ->
  String ((Ascii (false, true, true, false, false, false, true, false)),
    (String ((Ascii (true, true, true, true, false, true, true, false)),
    (String ((Ascii (false, true, false, false, true, true, true, false)),
    (String ((Ascii (false, true, false, false, false, true, true, false)),
    (String ((Ascii (true, false, false, true, false, true, true, false)),
    (String ((Ascii (false, false, true, false, false, true, true, false)),
    (String ((Ascii (false, false, true, false, false, true, true, false)),
    (String ((Ascii (true, false, true, false, false, true, true, false)),
    (String ((Ascii (false, true, true, true, false, true, true, false)),
    (String ((Ascii (true, true, false, false, false, false, true, false)),
    (String ((Ascii (true, true, true, true, false, true, true, false)),
    (String ((Ascii (false, false, true, false, false, true, true, false)),
    (String ((Ascii (true, false, true, false, false, true, true, false)),
    (String ((Ascii (true, false, false, false, false, false, true, false)),
    (String ((Ascii (false, true, true, false, false, true, true, false)),
    (String ((Ascii (false, false, true, false, true, true, true, false)),
    (String ((Ascii (true, false, true, false, false, true, true, false)),
    (String ((Ascii (false, true, false, false, true, true, true, false)),
    (String ((Ascii (false, true, false, false, true, false, true, false)),
    (String ((Ascii (true, false, true, false, false, true, true, false)),
    (String ((Ascii (false, false, true, false, true, true, true, false)),
    (String ((Ascii (true, false, true, false, true, true, true, false)),
    (String ((Ascii (false, true, false, false, true, true, true, false)),
    (String ((Ascii (false, true, true, true, false, true, true, false)),
    (String ((Ascii (false, false, true, false, false, false, true, false)),
    (String ((Ascii (true, false, true, false, false, true, true, false)),
    (String ((Ascii (false, false, false, false, true, true, true, false)),
    (String ((Ascii (false, true, false, false, true, true, true, false)),
    (String ((Ascii (true, false, true, false, false, true, true, false)),
    (String ((Ascii (true, true, false, false, false, true, true, false)),
    (String ((Ascii (true, false, false, false, false, true, true, false)),
    (String ((Ascii (false, false, true, false, true, true, true, false)),
    (String ((Ascii (true, false, true, false, false, true, true, false)),
    (String ((Ascii (false, false, true, false, false, true, true, false)),
    EmptyString)))))))))))))))))))))))))))))))))))))))))))))))))))))))))))))))))))
| EForbiddenCodeAfterContinueDeprecated ->
  String ((Ascii (false, true, true, false, false, false, true, false)),
    (String ((Ascii (true, true, true, true, false, true, true, false)),
    (String ((Ascii (false, true, false, false, true, true, true, false)),
    (String ((Ascii (false, true, false, false, false, true, true, false)),
    (String ((Ascii (true, false, false, true, false, true, true, false)),
    (String ((Ascii (false, false, true, false, false, true, true, false)),
    (String ((Ascii (false, false, true, false, false, true, true, false)),
    (String ((Ascii (true, false, true, false, false, true, true, false)),
    (String ((Ascii (false, true, true, true, false, true, true, false)),
    (String ((Ascii (true, true, false, false, false, false, true, false)),
    (String ((Ascii (true, true, true, true, false, true, true, false)),
    (String ((Ascii (false, false, true, false, false, true, true, false)),
    (String ((Ascii (true, false, true, false, false, true, true, false)),
    (String ((Ascii (true, false, false, false, false, false, true, false)),
    (String ((Ascii (false, true, true, false, false, true, true, false)),
    (String ((Ascii (false, false, true, false, true, true, true, false)),
    (String ((Ascii (true, false, true, false, false, true, true, false)),
    (String ((Ascii (false, true, false, false, true, true, true, false)),
    (String ((Ascii (true, true, false, false, false, false, true, false)),
    (String ((Ascii (true, true, true, true, false, true, true, false)),
    (String ((Ascii (false, true, true, true, false, true, true, false)),
    (String ((Ascii (false, false, true, false, true, true, true, false)),
    (String ((Ascii (true, false, false, true, false, true, true, false)),
    (String ((Ascii (false, true, true, true, false, true, true, false)),
    (String ((Ascii (true, false, true, false, true, true, true, false)),
    (String ((Ascii (true, false, true, false, false, true, true, false)),
    (String ((Ascii (false, false, true, false, false, false, true, false)),
    (String ((Ascii (true, false, true, false, false, true, true, false)),
    (String ((Ascii (false, false, false, false, true, true, true, false)),
    (String ((Ascii (false, true, false, false, true, true, true, false)),
    (String ((Ascii (true, false, true, false, false, true, true, false)),
    (String ((Ascii (true, true, false, false, false, true, true, false)),
    (String ((Ascii (true, false, false, false, false, true, true, false)),
    (String ((Ascii (false, false, true, false, true, true, true, false)),
    (String ((Ascii (true, false, true, false, false, true, true, false)),
    (String ((Ascii (false, false, true, false, false, true, true, false)),
    EmptyString)))))))))))))))))))))))))))))))))))))))))))))))))))))))))))))))))))))))
| EForbiddenCodeAfterBreakDeprecated ->
  String ((Ascii (false, true, true, false, false, false, true, false)),
    (String ((Ascii (true, true, true, true, false, true, true, false)),
    (String ((Ascii (false, true, false, false, true, true, true, false)),
    (String ((Ascii (false, true, false, false, false, true, true, false)),
    (String ((Ascii (true, false, false, true, false, true, true, false)),
    (String ((Ascii (false, false, true, false, false, true, true, false)),
    (String ((Ascii (false, false, true, false, false, true, true, false)),
    (String ((Ascii (true, false, true, false, false, true, true, false)),
    (String ((Ascii (false, true, true, true, false, true, true, false)),
    (String ((Ascii (true, true, false, false, false, false, true, false)),
    (String ((Ascii (true, true, true, true, false, true, true, false)),
    (String ((Ascii (false, false, true, false, false, true, true, false)),
    (String ((Ascii (true, false, true, false, false, true, true, false)),
    (String ((Ascii (true, false, false, false, false, false, true, false)),
    (String ((Ascii (false, true, true, false, false, true, true, false)),
    (String ((Ascii (false, false, true, false, true, true, true, false)),
    (String ((Ascii (true, false, true, false, false, true, true, false)),
    (String ((Ascii (false, true, false, false, true, true, true, false)),
    (String ((Ascii (false, true, false, false, false, false, true, false)),
    (String ((Ascii (false, true, false, false, true, true, true, false)),
    (String ((Ascii (true, false, true, false, false, true, true, false)),
    (String ((Ascii (true, false, false, false, false, true, true, false)),
    (String ((Ascii (true, true, false, true, false, true, true, false)),
    (String ((Ascii (false, false, true, false, false, false, true, false)),
    (String ((Ascii (true, false, true, false, false, true, true, false)),
    (String ((Ascii (false, false, false, false, true, true, true, false)),
    (String ((Ascii (false, true, false, false, true, true, true, false)),
    (String ((Ascii (true, false, true, false, false, true, true, false)),
    (String ((Ascii (true, true, false, false, false, true, true, false)),
    (String ((Ascii (true, false, false, false, false, true, true, false)),
    (String ((Ascii (false, false, true, false, true, true, true, false)),
    (String ((Ascii (true, false, true, false, false, true, true, false)),
    (String ((Ascii (false, false, true, false, false, true, true, false)),
    EmptyString)))))))))))))))))))))))))))))))))))))))))))))))))))))))))))))))))
| EFunctionArgumentNameDuplicated ->
  String ((Ascii (false, true, true, false, false, false, true, false)),
    (String ((Ascii (true, false, true, false, true, true, true, false)),
    (String ((Ascii (false, true, true, true, false, true, true, false)),
    (String ((Ascii (true, true, false, false, false, true, true, false)),
    (String ((Ascii (false, false, true, false, true, true, true, false)),
    (String ((Ascii (true, false, false, true, false, true, true, false)),
    (String ((Ascii (true, true, true, true, false, true, true, false)),
    (String ((Ascii (false, true, true, true, false, true, true, false)),
    (String ((Ascii (true, false, false, false, false, false, true, false)),
    (String ((Ascii (false, true, false, false, true, true, true, false)),
    (String ((Ascii (true, true, true, false, false, true, true, false)),
    (String ((Ascii (true, false, true, false, true, true, true, false)),
    (String ((Ascii (true, false, true, true, false, true, true, false)),
    (String ((Ascii (true, false, true, false, false, true, true, false)),
    (String ((Ascii (false, true, true, true, false, true, true, false)),
    (String ((Ascii (false, false, true, false, true, true, true, false)),
    (String ((Ascii (false, true, true, true, false, false, true, false)),
    (String ((Ascii (true, false, false, false, false, true, true, false)),
    (String ((Ascii (true, false, true, true, false, true, true, false)),
    (String ((Ascii (true, false, true, false, false, true, true, false)),
    (String ((Ascii (false, false, true, false, false, false, true, false)),
    (String ((Ascii (true, false, true, false, true, true, true, false)),
    (String ((Ascii (false, false, false, false, true, true, true, false)),
    (String ((Ascii (false, false, true, true, false, true, true, false)),
    (String ((Ascii (true, false, false, true, false, true, true, false)),
    (String ((Ascii (true, true, false, false, false, true, true, false)),
    (String ((Ascii (true, false, false, false, false, true, true, false)),
    (String ((Ascii (false, false, true, false, true, true, true, false)),
    (String ((Ascii (true, false, true, false, false, true, true, false)),
    (String ((Ascii (false, false, true, false, false, true, true, false)),
    EmptyString)))))))))))))))))))))))))))))))))))))))))))))))))))))))))))

(** val all_err_kind : err_kind list **)

let all_err_kind =
  ECommon :: (EConstantAlreadyExist :: (EConstantNotFound :: (EWrongLetType :: (EWrongExpressionType :: (ETypeAlreadyExist :: (EFunctionAlreadyExist :: (EValueNotFound :: (EValueNotStruct :: (EValueNotStructField :: (EValueIsNotMutable :: (EFunctionNotFound :: (EFunctionParameterTypeWrong :: (EReturnNotFound :: (EReturnAlreadyCalled :: (EIfElseDuplicated :: (ETypeNotFound :: (EWrongReturnType :: (EConditionExpressionWrongType :: (EConditionIsEmpty :: (EConditionExpressionNotSupported :: (EForbiddenCodeAfterReturnDeprecated :: (EForbiddenCodeAfterContinueDeprecated :: (EForbiddenCodeAfterBreakDeprecated :: (EFunctionArgumentNameDuplicated :: []))))))))))))))))))))))))

(** val max_prio : n **)

let max_prio =
  Npos (XI (XO (XO XH)))

(** val prio : binop -> n **)

let prio = function
| OPlus -> Npos (XI (XO XH))
| OMinus -> Npos (XO (XO XH))
| OMultiply -> Npos (XI (XO (XO XH)))
| ODivide -> Npos (XO (XO (XO XH)))
| OShiftLeft -> Npos (XI (XO (XO XH)))
| OShiftRight -> Npos (XI (XO (XO XH)))
| OOr -> Npos (XO (XI XH))
| OXor -> Npos (XO (XI XH))
| _ -> Npos (XI (XI XH))

type ast_ty =
| TPrim of prim_ty
| TStruct of ident * (ident * ast_ty) list
| TArray of ast_ty * n

type prim_val = { pv_ty : prim_ty; pv_bits : z }

type cval =
| CConst of ident
| CVal of prim_val

type cexpr = { ce_head : cval; ce_rest : (binop * cval) list }

type expr =
| Expr of expr_val * (binop * expr_val) list
and expr_val =
| EVName of ident
| EVPrim of prim_val
| EVCall of ident * expr list
| EVField of ident * ident
| EVSub of expr
| EVExt of ast_ty * n

type lcond =
| LC of expr * cmpop * expr * (logicop * lcond) option

type cond =
| CSingle of expr
| CLogic of lcond

type stmt =
| SLet of ident * bool * ast_ty option * expr
| SBind of ident * expr
| SCall of ident * expr list
| SIf of ifstmt
| SLoop of stmt list
| SRet of expr
| SExprStmt of expr
| SBreak
| SContinue
and ifstmt =
| IfS of cond * ifbody * ifbody option * ifstmt option
and ifbody =
| IBIf of stmt list
| IBLoop of stmt list

type fn_decl = { fn_name : ident; fn_params : (ident * ast_ty) list;
                 fn_result : ast_ty; fn_body : stmt list }

type top =
| TImport of ident list
| TStructDecl of ident * (ident * ast_ty) list
| TConst of ident * ast_ty * cexpr
| TFn of fn_decl

type program = top list

(** val size_expr : expr -> nat **)

let rec size_expr = function
| Expr (v, rest) ->
  S
    (add (size_val v)
      (let rec go = function
       | [] -> O
       | p :: l' -> let (_, v') = p in S (add (size_val v') (go l'))
       in go rest))

(** val size_val : expr_val -> nat **)

and size_val = function
| EVCall (_, args) ->
  S
    (let rec go = function
     | [] -> O
     | e :: l' -> add (size_expr e) (go l')
     in go args)
| EVSub e -> S (size_expr e)
| _ -> S O

(** val size_exprs : expr list -> nat **)

let size_exprs l =
  fold_right (fun e n0 -> add (size_expr e) n0) O l

(** val size_lcond : lcond -> nat **)

let rec size_lcond = function
| LC (l, _, r, next) ->
  S
    (add (add (size_expr l) (size_expr r))
      (match next with
       | Some p -> let (_, c') = p in size_lcond c'
       | None -> O))

(** val size_cond : cond -> nat **)

let size_cond = function
| CSingle e -> S (size_expr e)
| CLogic l -> S (size_lcond l)

(** val size_stmt : stmt -> nat **)

let rec size_stmt = function
| SLet (_, _, _, e) -> S (size_expr e)
| SBind (_, e) -> S (size_expr e)
| SCall (_, args) -> S (size_exprs args)
| SIf i -> S (size_if i)
| SLoop body ->
  S
    (let rec go = function
     | [] -> O
     | s' :: l' -> add (size_stmt s') (go l')
     in go body)
| SRet e -> S (size_expr e)
| SExprStmt e -> S (size_expr e)
| _ -> S O

(** val size_if : ifstmt -> nat **)

and size_if = function
| IfS (c, body, els, elif) ->
  S
    (add
      (add (add (size_cond c) (size_ifbody body))
        (match els with
         | Some b -> size_ifbody b
         | None -> O)) (match elif with
                        | Some i' -> size_if i'
                        | None -> O))

(** val size_ifbody : ifbody -> nat **)

and size_ifbody = function
| IBIf ss ->
  S
    (let rec go = function
     | [] -> O
     | s' :: l' -> add (size_stmt s') (go l')
     in go ss)
| IBLoop ss ->
  S
    (let rec go = function
     | [] -> O
     | s' :: l' -> add (size_stmt s') (go l')
     in go ss)

(** val size_stmts : stmt list -> nat **)

let size_stmts l =
  fold_right (fun s n0 -> add (size_stmt s) n0) O l

(** val size_fn : fn_decl -> nat **)

let size_fn f =
  S (add (length f.fn_params) (size_stmts f.fn_body))

type sem_ty =
| SPrim of prim_ty
| SStruct of string * ((string * n) * sem_ty) list
| SArray of sem_ty * n

(** val prim_ty_eqb : prim_ty -> prim_ty -> bool **)

let prim_ty_eqb a b =
  match a with
  | PU8 -> (match b with
            | PU8 -> true
            | _ -> false)
  | PU16 -> (match b with
             | PU16 -> true
             | _ -> false)
  | PU32 -> (match b with
             | PU32 -> true
             | _ -> false)
  | PU64 -> (match b with
             | PU64 -> true
             | _ -> false)
  | PI8 -> (match b with
            | PI8 -> true
            | _ -> false)
  | PI16 -> (match b with
             | PI16 -> true
             | _ -> false)
  | PI32 -> (match b with
             | PI32 -> true
             | _ -> false)
  | PI64 -> (match b with
             | PI64 -> true
             | _ -> false)
  | PF32 -> (match b with
             | PF32 -> true
             | _ -> false)
  | PF64 -> (match b with
             | PF64 -> true
             | _ -> false)
  | PBool -> (match b with
              | PBool -> true
              | _ -> false)
  | PChar -> (match b with
              | PChar -> true
              | _ -> false)
  | PPtr -> (match b with
             | PPtr -> true
             | _ -> false)
  | PNone -> (match b with
              | PNone -> true
              | _ -> false)

(** val sem_ty_eqb : sem_ty -> sem_ty -> bool **)

let rec sem_ty_eqb a b =
  match a with
  | SPrim p -> (match b with
                | SPrim q -> prim_ty_eqb p q
                | _ -> false)
  | SStruct (n0, la) ->
    (match b with
     | SStruct (m0, lb) ->
       (&&) (eqb1 n0 m0)
         (let rec go la0 lb0 =
            match la0 with
            | [] -> (match lb0 with
                     | [] -> true
                     | _ :: _ -> false)
            | p :: la' ->
              let (p0, t) = p in
              let (x, i) = p0 in
              (match lb0 with
               | [] -> false
               | p1 :: lb' ->
                 let (p2, u) = p1 in
                 let (y, j) = p2 in
                 (&&) ((&&) ((&&) (eqb1 x y) (N.eqb i j)) (sem_ty_eqb t u))
                   (go la' lb'))
          in go la lb)
     | _ -> false)
  | SArray (t, n0) ->
    (match b with
     | SArray (u, m0) -> (&&) (sem_ty_eqb t u) (N.eqb n0 m0)
     | _ -> false)

(** val norm_attrs : n -> (string * 'a1) list -> ((string * n) * 'a1) list **)

let rec norm_attrs i = function
| [] -> []
| p :: l' ->
  let (x, a) = p in
  if existsb (fun p0 -> eqb1 x (fst p0)) l'
  then norm_attrs (N.add i (Npos XH)) l'
  else ((x, i), a) :: (norm_attrs (N.add i (Npos XH)) l')

(** val sem_of_ty : ast_ty -> sem_ty **)

let rec sem_of_ty = function
| TPrim p -> SPrim p
| TStruct (n0, attrs) ->
  SStruct (n0.iname,
    (norm_attrs N0
      (map (fun p -> ((fst p).iname, (sem_of_ty (snd p)))) attrs)))
| TArray (t', n0) -> SArray ((sem_of_ty t'), n0)

(** val struct_of_decl : ident -> (ident * ast_ty) list -> sem_ty **)

let struct_of_decl name attrs =
  sem_of_ty (TStruct (name, attrs))

(** val prim_ty_display : prim_ty -> string **)

let prim_ty_display = function
| PU8 ->
  String ((Ascii (true, false, true, false, true, true, true, false)),
    (String ((Ascii (false, false, false, true, true, true, false, false)),
    EmptyString)))
| PU16 ->
  String ((Ascii (true, false, true, false, true, true, true, false)),
    (String ((Ascii (true, false, false, false, true, true, false, false)),
    (String ((Ascii (false, true, true, false, true, true, false, false)),
    EmptyString)))))
| PU32 ->
  String ((Ascii (true, false, true, false, true, true, true, false)),
    (String ((Ascii (true, true, false, false, true, true, false, false)),
    (String ((Ascii (false, true, false, false, true, true, false, false)),
    EmptyString)))))
| PU64 ->
  String ((Ascii (true, false, true, false, true, true, true, false)),
    (String ((Ascii (false, true, true, false, true, true, false, false)),
    (String ((Ascii (false, false, true, false, true, true, false, false)),
    EmptyString)))))
| PI8 ->
  String ((Ascii (true, false, false, true, false, true, true, false)),
    (String ((Ascii (false, false, false, true, true, true, false, false)),
    EmptyString)))
| PI16 ->
  String ((Ascii (true, false, false, true, false, true, true, false)),
    (String ((Ascii (true, false, false, false, true, true, false, false)),
    (String ((Ascii (false, true, true, false, true, true, false, false)),
    EmptyString)))))
| PI32 ->
  String ((Ascii (true, false, false, true, false, true, true, false)),
    (String ((Ascii (true, true, false, false, true, true, false, false)),
    (String ((Ascii (false, true, false, false, true, true, false, false)),
    EmptyString)))))
| PI64 ->
  String ((Ascii (true, false, false, true, false, true, true, false)),
    (String ((Ascii (false, true, true, false, true, true, false, false)),
    (String ((Ascii (false, false, true, false, true, true, false, false)),
    EmptyString)))))
| PF32 ->
  String ((Ascii (false, true, true, false, false, true, true, false)),
    (String ((Ascii (true, true, false, false, true, true, false, false)),
    (String ((Ascii (false, true, false, false, true, true, false, false)),
    EmptyString)))))
| PF64 ->
  String ((Ascii (false, true, true, false, false, true, true, false)),
    (String ((Ascii (false, true, true, false, true, true, false, false)),
    (String ((Ascii (false, false, true, false, true, true, false, false)),
    EmptyString)))))
| PBool ->
  String ((Ascii (false, true, false, false, false, true, true, false)),
    (String ((Ascii (true, true, true, true, false, true, true, false)),
    (String ((Ascii (true, true, true, true, false, true, true, false)),
    (String ((Ascii (false, false, true, true, false, true, true, false)),
    EmptyString)))))))
| PChar ->
  String ((Ascii (true, true, false, false, false, true, true, false)),
    (String ((Ascii (false, false, false, true, false, true, true, false)),
    (String ((Ascii (true, false, false, false, false, true, true, false)),
    (String ((Ascii (false, true, false, false, true, true, true, false)),
    EmptyString)))))))
| PPtr ->
  String ((Ascii (false, false, false, false, true, true, true, false)),
    (String ((Ascii (false, false, true, false, true, true, true, false)),
    (String ((Ascii (false, true, false, false, true, true, true, false)),
    EmptyString)))))
| PNone ->
  String ((Ascii (false, false, false, true, false, true, false, false)),
    (String ((Ascii (true, false, false, true, false, true, false, false)),
    EmptyString)))

(** val type_name : sem_ty -> string **)

let rec type_name = function
| SPrim p -> prim_ty_display p
| SStruct (n0, _) -> n0
| SArray (t', n0) ->
  append (String ((Ascii (true, true, false, true, true, false, true,
    false)), EmptyString))
    (append (debug_string (type_name t'))
      (append (String ((Ascii (true, true, false, true, true, true, false,
        false)), EmptyString))
        (append (dec n0) (String ((Ascii (true, false, true, true, true,
          false, true, false)), EmptyString)))))

(** val is_prim : sem_ty -> bool **)

let is_prim = function
| SPrim _ -> true
| _ -> false

(** val attr_lookup :
    string -> ((string * n) * sem_ty) list -> (n * sem_ty) option **)

let rec attr_lookup a = function
| [] -> None
| p :: l' ->
  let (p0, t) = p in
  let (x, i) = p0 in if eqb1 a x then Some (i, t) else attr_lookup a l'

type value = { v_inner : string; v_ty : sem_ty; v_mut : bool }

type eres_val =
| RReg of n
| RPrim of prim_val

type eres = { r_ty : sem_ty; r_val : eres_val }

type cval_sem =
| CCs of string
| CVs of prim_val

type const_sem = { c_name : string; c_ty : sem_ty; c_head : cval_sem;
                   c_rest : (binop * cval_sem) list }

type func_sem = { f_name : string; f_ty : sem_ty; f_params : sem_ty list }

type instr =
| IExprValue of value * n
| IExprConst of const_sem * n
| IExprStruct of value * n * n
| IExprOp of binop * eres * eres * n
| ICall of func_sem * eres list * n
| ILet of value * eres
| IBind of value * eres
| IFnRet of eres
| IFnRetLabel of eres
| ISetLabel of string
| IJumpTo of string
| IIfCondExpr of eres * string * string
| ICondExpr of eres * eres * cmpop * n
| IJumpFnRet of eres
| ILogic of logicop * n * n * n
| IIfCondLogic of string * string * n
| IFnArg of value * string * sem_ty
| IExt of n * n

type ginstr =
| GTypes of sem_ty
| GConst of const_sem
| GFnDecl of string * (string * sem_ty) list * sem_ty

type block = { b_values : (string * value) list; b_inner : string list;
               b_labels : string list; b_reg : n; b_mret : bool;
               b_ctx : instr list; b_kids : block list }

type err = { e_kind : err_kind; e_val : string option; e_loc : loc }

type globals = { g_types : (string * sem_ty) list;
                 g_consts : (string * const_sem) list;
                 g_funcs : (string * func_sem) list }

type output = { o_errors : err list; o_globals : globals;
                o_gstack : ginstr list; o_fns : block list }

type panic_kind =
| PLoopLabel
| PSuffixOverflow
| PIllKinded
| PNoFrame

type bst = { frames : block list; errs : err list }

type 'a res =
| Ok of 'a * bst
| Panic of panic_kind
| OutOfFuel

type 'a m = bst -> 'a res

(** val ret : 'a1 -> 'a1 m **)

let ret a s =
  Ok (a, s)

(** val bind : 'a1 m -> ('a1 -> 'a2 m) -> 'a2 m **)

let bind m0 f s =
  match m0 s with
  | Ok (a, s') -> f a s'
  | Panic k -> Panic k
  | OutOfFuel -> OutOfFuel

(** val panic : panic_kind -> 'a1 m **)

let panic k _ =
  Panic k

(** val out_of_fuel : 'a1 m **)

let out_of_fuel _ =
  OutOfFuel

(** val gets : (block list -> 'a1) -> 'a1 m **)

let gets f s =
  Ok ((f s.frames), s)

(** val upd_frames : (block list -> block list) -> unit m **)

let upd_frames f s =
  Ok ((), { frames = (f s.frames); errs = s.errs })

(** val when0 : bool -> unit m -> unit m **)

let when0 b m0 =
  if b then m0 else ret ()

(** val set_reg : n -> block -> block **)

let set_reg r b =
  { b_values = b.b_values; b_inner = b.b_inner; b_labels = b.b_labels;
    b_reg = r; b_mret = b.b_mret; b_ctx = b.b_ctx; b_kids = b.b_kids }

(** val push_ctx : instr -> block -> block **)

let push_ctx i b =
  { b_values = b.b_values; b_inner = b.b_inner; b_labels = b.b_labels;
    b_reg = b.b_reg; b_mret = b.b_mret; b_ctx = (app b.b_ctx (i :: []));
    b_kids = b.b_kids }

(** val add_inner : string -> block -> block **)

let add_inner n0 b =
  { b_values = b.b_values; b_inner = (sadd n0 b.b_inner); b_labels =
    b.b_labels; b_reg = b.b_reg; b_mret = b.b_mret; b_ctx = b.b_ctx; b_kids =
    b.b_kids }

(** val add_label : string -> block -> block **)

let add_label n0 b =
  { b_values = b.b_values; b_inner = b.b_inner; b_labels =
    (sadd n0 b.b_labels); b_reg = b.b_reg; b_mret = b.b_mret; b_ctx =
    b.b_ctx; b_kids = b.b_kids }

(** val set_mret : block -> block **)

let set_mret b =
  { b_values = b.b_values; b_inner = b.b_inner; b_labels = b.b_labels;
    b_reg = b.b_reg; b_mret = true; b_ctx = b.b_ctx; b_kids = b.b_kids }

(** val set_value : string -> value -> block -> block **)

let set_value x v b =
  { b_values = (ainsert x v b.b_values); b_inner = b.b_inner; b_labels =
    b.b_labels; b_reg = b.b_reg; b_mret = b.b_mret; b_ctx = b.b_ctx; b_kids =
    b.b_kids }

(** val add_kid : block -> block -> block **)

let add_kid c b =
  { b_values = b.b_values; b_inner = b.b_inner; b_labels = b.b_labels;
    b_reg = b.b_reg; b_mret = b.b_mret; b_ctx = b.b_ctx; b_kids =
    (app b.b_kids (c :: [])) }

(** val set_kids : block list -> block -> block **)

let set_kids ks b =
  { b_values = b.b_values; b_inner = b.b_inner; b_labels = b.b_labels;
    b_reg = b.b_reg; b_mret = b.b_mret; b_ctx = b.b_ctx; b_kids = ks }

(** val empty_block : block **)

let empty_block =
  { b_values = []; b_inner = []; b_labels = []; b_reg = N0; b_mret = false;
    b_ctx = []; b_kids = [] }

(** val head_reg : block list -> n **)

let head_reg = function
| [] -> N0
| b :: _ -> b.b_reg

(** val head_mret : block list -> bool **)

let head_mret = function
| [] -> false
| b :: _ -> b.b_mret

(** val head_ctx : block list -> instr list **)

let head_ctx = function
| [] -> []
| b :: _ -> b.b_ctx

(** val inc_register : unit m **)

let inc_register =
  upd_frames (fun fs -> map (set_reg (N.add (head_reg fs) (Npos XH))) fs)

(** val get_reg : n m **)

let get_reg =
  gets head_reg

(** val alloc_emit : (n -> instr) -> n m **)

let alloc_emit mk =
  bind inc_register (fun _ ->
    bind get_reg (fun r ->
      bind (upd_frames (map (push_ctx (mk r)))) (fun _ -> ret r)))

(** val bump : n m **)

let bump =
  bind inc_register (fun _ -> get_reg)

(** val emit : instr -> unit m **)

let emit i =
  upd_frames (map (push_ctx i))

(** val set_inner_name : string -> unit m **)

let set_inner_name n0 =
  upd_frames (map (add_inner n0))

(** val set_label_name : string -> unit m **)

let set_label_name n0 =
  upd_frames (map (add_label n0))

(** val set_return : unit m **)

let set_return =
  upd_frames (map set_mret)

(** val insert_value : string -> value -> unit m **)

let insert_value x v =
  upd_frames (fun fs ->
    match fs with
    | [] -> []
    | b :: r -> (set_value x v b) :: r)

(** val lookup_frames : string -> block list -> value option **)

let rec lookup_frames x = function
| [] -> None
| b :: r ->
  (match alookup x b.b_values with
   | Some v -> Some v
   | None -> lookup_frames x r)

(** val lookup_value : string -> value option m **)

let lookup_value x =
  gets (lookup_frames x)

(** val inner_exists : string -> block list -> bool **)

let inner_exists n0 fs =
  existsb (fun b -> smem n0 b.b_inner) fs

(** val label_exists : string -> block list -> bool **)

let label_exists n0 fs =
  existsb (fun b -> smem n0 b.b_labels) fs

(** val add_error : err -> unit m **)

let add_error e s =
  Ok ((), { frames = s.frames; errs = (app s.errs (e :: [])) })

(** val new_child : block list -> block **)

let new_child = function
| [] -> empty_block
| p :: _ ->
  { b_values = []; b_inner = p.b_inner; b_labels = p.b_labels; b_reg =
    p.b_reg; b_mret = p.b_mret; b_ctx = []; b_kids = [] }

(** val push_child : unit m **)

let push_child =
  upd_frames (fun fs -> (new_child fs) :: fs)

(** val pop_child : nat m **)

let pop_child s =
  match s.frames with
  | [] -> Panic PNoFrame
  | c :: l ->
    (match l with
     | [] -> Panic PNoFrame
     | p :: r ->
       Ok ((length p.b_kids), { frames = ((add_kid c p) :: r); errs =
         s.errs }))

(** val update_nth : nat -> ('a1 -> 'a1) -> 'a1 list -> 'a1 list **)

let rec update_nth k f = function
| [] -> []
| x :: l' ->
  (match k with
   | O -> (f x) :: l'
   | S k' -> x :: (update_nth k' f l'))

(** val emit_kid : nat -> instr -> unit m **)

let emit_kid k i =
  bind
    (upd_frames (fun fs ->
      match fs with
      | [] -> []
      | p :: r -> (set_kids (update_nth k (push_ctx i) p.b_kids) p) :: r))
    (fun _ -> emit i)

(** val next_inner_name : nat -> string -> string m **)

let rec next_inner_name fuel n0 s =
  match fuel with
  | O -> OutOfFuel
  | S f ->
    (match set_attr_counter n0 with
     | Some n' ->
       if inner_exists n' s.frames then next_inner_name f n' s else Ok (n', s)
     | None -> Panic PSuffixOverflow)

(** val inner_probe_fuel : block list -> nat **)

let inner_probe_fuel fs =
  S (S (length (concat (map (fun b -> b.b_inner) fs))))

(** val label_probe : nat -> string -> string m **)

let rec label_probe fuel n0 s =
  match fuel with
  | O -> OutOfFuel
  | S f ->
    (match set_attr_counter n0 with
     | Some n' ->
       if label_exists n' s.frames
       then label_probe f n' s
       else bind (set_label_name n') (fun _ -> ret n') s
     | None -> Panic PSuffixOverflow)

(** val label_probe_fuel : block list -> nat **)

let label_probe_fuel fs =
  S (S (length (concat (map (fun b -> b.b_labels) fs))))

(** val gen_label : string -> string m **)

let gen_label base =
  bind (gets (label_exists base)) (fun ex0 ->
    if ex0
    then bind (gets label_probe_fuel) (fun fuel -> label_probe fuel base)
    else bind (set_label_name base) (fun _ -> ret base))

type links = (binop * expr_val) list

(** val fetch : n -> expr_val -> links -> expr_val * links **)

let rec fetch p v = function
| [] -> (v, [])
| p0 :: rest' ->
  let (op, v2) = p0 in
  if N.eqb (prio op) p
  then fetch p (EVSub (Expr (v, ((op, v2) :: [])))) rest'
  else let (v', r') = fetch p v2 rest' in (v, ((op, v') :: r'))

(** val levels : n list **)

let levels =
  map N.of_nat (rev0 (seq O (S (N.to_nat max_prio))))

(** val fold_priority : expr -> expr **)

let fold_priority e = match e with
| Expr (v, rest) ->
  (match rest with
   | [] -> e
   | _ :: l ->
     (match l with
      | [] -> e
      | _ :: _ ->
        let (v', r') =
          fold_left (fun acc p -> fetch p (fst acc) (snd acc)) levels (v,
            rest)
        in
        Expr (v', r')))

(** val loc10 : loc **)

let loc10 =
  ((Npos XH), N0)

(** val loc11 : loc **)

let loc11 =
  ((Npos XH), (Npos XH))

(** val cval_sem_of : cval -> cval_sem **)

let cval_sem_of = function
| CConst n0 -> CCs n0.iname
| CVal v -> CVs v

(** val const_of : ident -> ast_ty -> cexpr -> const_sem **)

let const_of name ty v =
  { c_name = name.iname; c_ty = (sem_of_ty ty); c_head =
    (cval_sem_of v.ce_head); c_rest =
    (map (fun p -> ((fst p), (cval_sem_of (snd p)))) v.ce_rest) }

(** val check_type_exists :
    globals -> sem_ty -> string option -> loc -> bool m **)

let check_type_exists g t val0 l =
  if is_prim t
  then ret true
  else if amem (type_name t) g.g_types
       then ret true
       else bind
              (add_error { e_kind = ETypeNotFound; e_val = val0; e_loc = l })
              (fun _ -> ret false)

(** val call_args :
    (expr -> eres option m) -> ident -> sem_ty list -> nat -> expr list ->
    eres list -> eres list option m **)

let rec call_args e callee params i args acc =
  match args with
  | [] -> ret (Some acc)
  | a :: args' ->
    bind (e a) (fun r ->
      match r with
      | Some er ->
        (match nth_error params i with
         | Some pt ->
           if sem_ty_eqb pt er.r_ty
           then call_args e callee params (S i) args' (app acc (er :: []))
           else bind
                  (add_error { e_kind = EFunctionParameterTypeWrong; e_val =
                    (Some (type_name er.r_ty)); e_loc = (iloc callee) })
                  (fun _ -> call_args e callee params (S i) args' acc)
         | None ->
           bind
             (add_error { e_kind = EFunctionParameterTypeWrong; e_val = (Some
               (type_name er.r_ty)); e_loc = (iloc callee) }) (fun _ ->
             call_args e callee params (S i) args' acc))
      | None -> ret None)

(** val function_call :
    globals -> (expr -> eres option m) -> ident -> expr list -> sem_ty option
    m **)

let function_call g e f args =
  match alookup f.iname g.g_funcs with
  | Some fd ->
    bind (call_args e f fd.f_params O args []) (fun ps ->
      match ps with
      | Some params ->
        bind (alloc_emit (fun x -> ICall (fd, params, x))) (fun _ ->
          ret (Some fd.f_ty))
      | None -> ret None)
  | None ->
    bind
      (add_error { e_kind = EFunctionNotFound; e_val = (Some f.iname);
        e_loc = (iloc f) }) (fun _ -> ret None)

(** val expr_value :
    globals -> (expr -> eres option m) -> expr_val -> eres option m **)

let expr_value g e = function
| EVName x ->
  bind (lookup_value x.iname) (fun vs ->
    match vs with
    | Some val0 ->
      bind (alloc_emit (fun x0 -> IExprValue (val0, x0))) (fun r ->
        ret (Some { r_ty = val0.v_ty; r_val = (RReg r) }))
    | None ->
      (match alookup x.iname g.g_consts with
       | Some c ->
         bind (alloc_emit (fun x0 -> IExprConst (c, x0))) (fun r ->
           ret (Some { r_ty = c.c_ty; r_val = (RReg r) }))
       | None ->
         bind bump (fun _ ->
           bind
             (add_error { e_kind = EValueNotFound; e_val = (Some x.iname);
               e_loc = (iloc x) }) (fun _ -> ret None))))
| EVPrim p -> ret (Some { r_ty = (SPrim p.pv_ty); r_val = (RPrim p) })
| EVCall (f, args) ->
  bind (function_call g e f args) (fun t ->
    match t with
    | Some ty ->
      bind bump (fun r -> ret (Some { r_ty = ty; r_val = (RReg r) }))
    | None -> ret None)
| EVField (x, a) ->
  bind (lookup_value x.iname) (fun vs ->
    match vs with
    | Some val0 ->
      (match val0.v_ty with
       | SStruct (_, attrs) ->
         bind (check_type_exists g val0.v_ty (Some x.iname) (iloc x))
           (fun ok ->
           if negb ok
           then ret None
           else (match alookup (type_name val0.v_ty) g.g_types with
                 | Some declared0 ->
                   if negb (sem_ty_eqb val0.v_ty declared0)
                   then bind
                          (add_error { e_kind = EWrongExpressionType; e_val =
                            (Some x.iname); e_loc = (iloc x) }) (fun _ ->
                          ret None)
                   else (match attr_lookup a.iname attrs with
                         | Some p ->
                           let (idx, aty) = p in
                           bind
                             (alloc_emit (fun x0 -> IExprStruct (val0, idx,
                               x0))) (fun _ ->
                             bind bump (fun r' ->
                               ret (Some { r_ty = aty; r_val = (RReg r') })))
                         | None ->
                           bind
                             (add_error { e_kind = EValueNotStructField;
                               e_val = (Some x.iname); e_loc = (iloc x) })
                             (fun _ -> ret None))
                 | None -> ret None))
       | _ ->
         bind
           (add_error { e_kind = EValueNotStruct; e_val = (Some x.iname);
             e_loc = (iloc x) }) (fun _ -> ret None))
    | None ->
      bind
        (add_error { e_kind = EValueNotFound; e_val = (Some x.iname); e_loc =
          (iloc x) }) (fun _ -> ret None))
| EVSub e0 -> e e0
| EVExt (t, tag) ->
  bind (alloc_emit (fun x -> IExt (tag, x))) (fun r ->
    ret (Some { r_ty = (sem_of_ty t); r_val = (RReg r) }))

(** val expr_chain :
    globals -> (expr -> eres option m) -> eres -> links -> eres option m **)

let rec expr_chain g e left = function
| [] -> ret (Some left)
| p :: rest' ->
  let (op, v) = p in
  bind (expr_value g e v) (fun rv ->
    match rv with
    | Some rgt ->
      if negb (sem_ty_eqb left.r_ty rgt.r_ty)
      then bind
             (add_error { e_kind = EWrongExpressionType; e_val = (Some
               (type_name left.r_ty)); e_loc = loc10 }) (fun _ -> ret None)
      else bind (alloc_emit (fun x -> IExprOp (op, left, rgt, x))) (fun r ->
             expr_chain g e { r_ty = rgt.r_ty; r_val = (RReg r) } rest')
    | None -> ret None)

(** val expression_body :
    globals -> (expr -> eres option m) -> expr -> eres option m **)

let expression_body g e e0 =
  let Expr (v, rest) = fold_priority e0 in
  bind (expr_value g e v) (fun rv ->
    match rv with
    | Some first -> expr_chain g e first rest
    | None -> ret None)

(** val expression : globals -> nat -> expr -> eres option m **)

let rec expression g fuel e =
  match fuel with
  | O -> out_of_fuel
  | S f -> expression_body g (expression g f) e

(** val let_binding :
    globals -> nat -> ident -> bool -> ast_ty option -> expr -> unit m **)

let let_binding g fuel =
  let ex0 = expression g fuel in
  (fun x mut ty e ->
  bind (ex0 e) (fun r ->
    match r with
    | Some er ->
      let mismatch =
        match ty with
        | Some t -> negb (sem_ty_eqb er.r_ty (sem_of_ty t))
        | None -> false
      in
      if mismatch
      then add_error { e_kind = EWrongLetType; e_val = (Some x.iname);
             e_loc = (iloc x) }
      else bind (lookup_value x.iname) (fun vs ->
             let base =
               match vs with
               | Some val0 -> val0.v_inner
               | None -> x.iname
             in
             bind (gets inner_probe_fuel) (fun pf ->
               bind (next_inner_name pf base) (fun inner ->
                 let val0 = { v_inner = inner; v_ty = er.r_ty; v_mut = mut }
                 in
                 bind (insert_value x.iname val0) (fun _ ->
                   bind (set_inner_name inner) (fun _ ->
                     emit (ILet (val0, er)))))))
    | None -> ret ()))

(** val binding : globals -> nat -> ident -> expr -> unit m **)

let binding g fuel =
  let ex0 = expression g fuel in
  (fun x e ->
  bind (ex0 e) (fun r ->
    match r with
    | Some er ->
      bind (lookup_value x.iname) (fun vs ->
        match vs with
        | Some val0 ->
          if negb val0.v_mut
          then add_error { e_kind = EValueIsNotMutable; e_val = (Some
                 x.iname); e_loc = (iloc x) }
          else if negb (sem_ty_eqb val0.v_ty er.r_ty)
               then add_error { e_kind = EWrongExpressionType; e_val = (Some
                      x.iname); e_loc = (iloc x) }
               else emit (IBind (val0, er))
        | None ->
          add_error { e_kind = EValueNotFound; e_val = (Some x.iname);
            e_loc = (iloc x) })
    | None -> ret ()))

(** val call_stmt : globals -> nat -> ident -> expr list -> unit m **)

let call_stmt g fuel =
  let ex0 = expression g fuel in
  (fun f args -> bind (function_call g ex0 f args) (fun _ -> ret ()))

(** val condition_expression : globals -> nat -> lcond -> n m **)

let condition_expression g fuel =
  let ex0 = expression g fuel in
  let rec condition_expression0 = function
  | LC (l, cmp, r, next) ->
    bind (ex0 l) (fun lres ->
      bind (ex0 r) (fun rres ->
        match lres with
        | Some lr ->
          (match rres with
           | Some rr ->
             if negb (sem_ty_eqb lr.r_ty rr.r_ty)
             then bind
                    (add_error { e_kind = EConditionExpressionWrongType;
                      e_val = (Some (type_name lr.r_ty)); e_loc = loc10 })
                    (fun _ -> get_reg)
             else if negb (is_prim lr.r_ty)
                  then bind
                         (add_error { e_kind =
                           EConditionExpressionNotSupported; e_val = (Some
                           (type_name lr.r_ty)); e_loc = loc10 }) (fun _ ->
                         get_reg)
                  else bind
                         (alloc_emit (fun x -> ICondExpr (lr, rr, cmp, x)))
                         (fun _ ->
                         bind
                           (match next with
                            | Some p ->
                              let (op, c') = p in
                              bind get_reg (fun lreg ->
                                bind (condition_expression0 c') (fun rreg ->
                                  bind
                                    (alloc_emit (fun x -> ILogic (op, lreg,
                                      rreg, x))) (fun _ -> ret ())))
                            | None -> ret ()) (fun _ -> get_reg))
           | None ->
             bind
               (add_error { e_kind = EConditionIsEmpty; e_val = None; e_loc =
                 loc10 }) (fun _ -> get_reg))
        | None ->
          bind
            (add_error { e_kind = EConditionIsEmpty; e_val = None; e_loc =
              loc10 }) (fun _ -> get_reg)))
  in condition_expression0

(** val if_condition_calculation :
    globals -> nat -> cond -> string -> string -> string -> bool -> unit m **)

let if_condition_calculation g fuel =
  let ex0 = expression g fuel in
  (fun c lbegin lelse lend is_else ->
  let target = if is_else then lelse else lend in
  (match c with
   | CSingle e ->
     bind (ex0 e) (fun r ->
       match r with
       | Some er -> emit (IIfCondExpr (er, lbegin, target))
       | None -> ret ())
   | CLogic lc ->
     bind (condition_expression g fuel lc) (fun reg ->
       emit (IIfCondLogic (lbegin, target, reg)))))

(** val check_return_type : sem_ty -> eres -> unit m **)

let check_return_type rT er =
  when0 (negb (sem_ty_eqb rT er.r_ty))
    (add_error { e_kind = EWrongReturnType; e_val = None; e_loc = loc10 })

type flags = { fl_ret : bool; fl_brk : bool; fl_cont : bool }

(** val flags0 : flags **)

let flags0 =
  { fl_ret = false; fl_brk = false; fl_cont = false }

type bkind =
| KIf
| KIfLoop
| KLoop

(** val code_after_errors : bkind -> flags -> unit m **)

let code_after_errors k fl =
  bind
    (when0 fl.fl_ret
      (add_error { e_kind = EForbiddenCodeAfterReturnDeprecated; e_val =
        None; e_loc = loc11 })) (fun _ ->
    match k with
    | KIf -> ret ()
    | _ ->
      bind
        (when0 fl.fl_brk
          (add_error { e_kind = EForbiddenCodeAfterBreakDeprecated; e_val =
            None; e_loc = loc11 })) (fun _ ->
        when0 fl.fl_cont
          (add_error { e_kind = EForbiddenCodeAfterContinueDeprecated;
            e_val = None; e_loc = loc11 })))

(** val nested_stmt :
    globals -> nat -> sem_ty -> (ifstmt -> string option -> (string * string)
    option -> unit m) -> (stmt list -> unit m) -> bkind -> string ->
    (string * string) option -> flags -> stmt -> flags m **)

let nested_stmt g fuel rT =
  let ex0 = expression g fuel in
  (fun iFC lOOP k lend lloop fl st ->
  match st with
  | SLet (x, m0, t, e) -> bind (let_binding g fuel x m0 t e) (fun _ -> ret fl)
  | SBind (x, e) -> bind (binding g fuel x e) (fun _ -> ret fl)
  | SCall (f, args) -> bind (call_stmt g fuel f args) (fun _ -> ret fl)
  | SIf i ->
    bind
      (match k with
       | KLoop -> iFC i None lloop
       | _ -> iFC i (Some lend) lloop) (fun _ -> ret fl)
  | SLoop body -> bind (lOOP body) (fun _ -> ret fl)
  | SRet e ->
    bind (ex0 e) (fun r ->
      match r with
      | Some er ->
        bind (check_return_type rT er) (fun _ ->
          bind (emit (IJumpFnRet er)) (fun _ ->
            bind set_return (fun _ ->
              ret { fl_ret = true; fl_brk = fl.fl_brk; fl_cont = fl.fl_cont })))
      | None -> ret fl)
  | SExprStmt _ -> panic PIllKinded
  | SBreak ->
    (match k with
     | KIf -> panic PIllKinded
     | _ ->
       (match lloop with
        | Some p ->
          let (_, lloop_end) = p in
          bind (emit (IJumpTo lloop_end)) (fun _ ->
            ret { fl_ret = fl.fl_ret; fl_brk = true; fl_cont = fl.fl_cont })
        | None -> panic PIllKinded))
  | SContinue ->
    (match k with
     | KIf -> panic PIllKinded
     | _ ->
       (match lloop with
        | Some p ->
          let (lloop_begin, _) = p in
          bind (emit (IJumpTo lloop_begin)) (fun _ ->
            ret { fl_ret = fl.fl_ret; fl_brk = fl.fl_brk; fl_cont = true })
        | None -> panic PIllKinded)))

(** val run_body :
    globals -> nat -> sem_ty -> (ifstmt -> string option -> (string * string)
    option -> unit m) -> (stmt list -> unit m) -> bkind -> string ->
    (string * string) option -> flags -> stmt list -> flags m **)

let rec run_body g fuel rT iFC lOOP k lend lloop fl = function
| [] -> ret fl
| st :: ss' ->
  bind (code_after_errors k fl) (fun _ ->
    bind (nested_stmt g fuel rT iFC lOOP k lend lloop fl st) (fun fl' ->
      run_body g fuel rT iFC lOOP k lend lloop fl' ss'))

(** val if_body :
    globals -> nat -> sem_ty -> (ifstmt -> string option -> (string * string)
    option -> unit m) -> (stmt list -> unit m) -> ifbody -> string ->
    (string * string) option -> bool m **)

let if_body g fuel rT iFC lOOP b lend lloop =
  match b with
  | IBIf ss ->
    bind (run_body g fuel rT iFC lOOP KIf lend lloop flags0 ss) (fun fl ->
      ret fl.fl_ret)
  | IBLoop ss ->
    (match lloop with
     | Some _ ->
       bind (run_body g fuel rT iFC lOOP KIfLoop lend lloop flags0 ss)
         (fun fl -> ret fl.fl_ret)
     | None -> panic PLoopLabel)

(** val is_some : 'a1 option -> bool **)

let is_some = function
| Some _ -> true
| None -> false

(** val if_condition_step :
    globals -> nat -> sem_ty -> (ifstmt -> string option -> (string * string)
    option -> unit m) -> (stmt list -> unit m) -> ifstmt -> string option ->
    (string * string) option -> unit m **)

let if_condition_step g fuel rT iFC lOOP i label_end label_loop =
  let IfS (c, body, els, elif) = i in
  bind
    (when0 ((&&) (is_some els) (is_some elif))
      (add_error { e_kind = EIfElseDuplicated; e_val = (Some (String ((Ascii
        (true, false, false, true, false, true, true, false)), (String
        ((Ascii (false, true, true, false, false, true, true, false)),
        (String ((Ascii (true, false, true, true, false, true, false,
        false)), (String ((Ascii (true, true, false, false, false, true,
        true, false)), (String ((Ascii (true, true, true, true, false, true,
        true, false)), (String ((Ascii (false, true, true, true, false, true,
        true, false)), (String ((Ascii (false, false, true, false, false,
        true, true, false)), (String ((Ascii (true, false, false, true,
        false, true, true, false)), (String ((Ascii (false, false, true,
        false, true, true, true, false)), (String ((Ascii (true, false,
        false, true, false, true, true, false)), (String ((Ascii (true, true,
        true, true, false, true, true, false)), (String ((Ascii (false, true,
        true, true, false, true, true, false)),
        EmptyString))))))))))))))))))))))))); e_loc = loc10 })) (fun _ ->
    bind push_child (fun _ ->
      bind
        (gen_label (String ((Ascii (true, false, false, true, false, true,
          true, false)), (String ((Ascii (false, true, true, false, false,
          true, true, false)), (String ((Ascii (true, true, true, true, true,
          false, true, false)), (String ((Ascii (false, true, false, false,
          false, true, true, false)), (String ((Ascii (true, false, true,
          false, false, true, true, false)), (String ((Ascii (true, true,
          true, false, false, true, true, false)), (String ((Ascii (true,
          false, false, true, false, true, true, false)), (String ((Ascii
          (false, true, true, true, false, true, true, false)),
          EmptyString))))))))))))))))) (fun lbegin ->
        bind
          (gen_label (String ((Ascii (true, false, false, true, false, true,
            true, false)), (String ((Ascii (false, true, true, false, false,
            true, true, false)), (String ((Ascii (true, true, true, true,
            true, false, true, false)), (String ((Ascii (true, false, true,
            false, false, true, true, false)), (String ((Ascii (false, false,
            true, true, false, true, true, false)), (String ((Ascii (true,
            true, false, false, true, true, true, false)), (String ((Ascii
            (true, false, true, false, false, true, true, false)),
            EmptyString))))))))))))))) (fun lelse ->
          bind
            (match label_end with
             | Some l -> ret l
             | None ->
               gen_label (String ((Ascii (true, false, false, true, false,
                 true, true, false)), (String ((Ascii (false, true, true,
                 false, false, true, true, false)), (String ((Ascii (true,
                 true, true, true, true, false, true, false)), (String
                 ((Ascii (true, false, true, false, false, true, true,
                 false)), (String ((Ascii (false, true, true, true, false,
                 true, true, false)), (String ((Ascii (false, false, true,
                 false, false, true, true, false)), EmptyString)))))))))))))
            (fun lend ->
            let is_else = (||) (is_some els) (is_some elif) in
            bind
              (if_condition_calculation g fuel c lbegin lelse lend is_else)
              (fun _ ->
              bind (emit (ISetLabel lbegin)) (fun _ ->
                bind (if_body g fuel rT iFC lOOP body lend label_loop)
                  (fun returned ->
                  bind (when0 (negb returned) (emit (IJumpTo lend)))
                    (fun _ ->
                    if is_else
                    then bind (emit (ISetLabel lelse)) (fun _ ->
                           bind pop_child (fun slot ->
                             bind
                               (match els with
                                | Some eb ->
                                  bind push_child (fun _ ->
                                    bind
                                      (if_body g fuel rT iFC lOOP eb lend
                                        label_loop) (fun returned' ->
                                      bind pop_child (fun _ ->
                                        when0 (negb returned')
                                          (emit_kid slot (IJumpTo lend)))))
                                | None ->
                                  (match elif with
                                   | Some ei -> iFC ei (Some lend) label_loop
                                   | None -> ret ())) (fun _ ->
                               when0 (negb (is_some label_end))
                                 (emit_kid slot (ISetLabel lend)))))
                    else bind
                           (when0 (negb (is_some label_end))
                             (emit (ISetLabel lend))) (fun _ ->
                           bind pop_child (fun _ -> ret ())))))))))))

(** val is_jump_to : string -> instr -> bool **)

let is_jump_to l = function
| IJumpTo l' -> eqb1 l l'
| _ -> false

(** val loop_step :
    globals -> nat -> sem_ty -> (ifstmt -> string option -> (string * string)
    option -> unit m) -> (stmt list -> unit m) -> stmt list -> unit m **)

let loop_step g fuel rT iFC lOOP body =
  bind push_child (fun _ ->
    bind
      (gen_label (String ((Ascii (false, false, true, true, false, true,
        true, false)), (String ((Ascii (true, true, true, true, false, true,
        true, false)), (String ((Ascii (true, true, true, true, false, true,
        true, false)), (String ((Ascii (false, false, false, false, true,
        true, true, false)), (String ((Ascii (true, true, true, true, true,
        false, true, false)), (String ((Ascii (false, true, false, false,
        false, true, true, false)), (String ((Ascii (true, false, true,
        false, false, true, true, false)), (String ((Ascii (true, true, true,
        false, false, true, true, false)), (String ((Ascii (true, false,
        false, true, false, true, true, false)), (String ((Ascii (false,
        true, true, true, false, true, true, false)),
        EmptyString))))))))))))))))))))) (fun lbegin ->
      bind
        (gen_label (String ((Ascii (false, false, true, true, false, true,
          true, false)), (String ((Ascii (true, true, true, true, false,
          true, true, false)), (String ((Ascii (true, true, true, true,
          false, true, true, false)), (String ((Ascii (false, false, false,
          false, true, true, true, false)), (String ((Ascii (true, true,
          true, true, true, false, true, false)), (String ((Ascii (true,
          false, true, false, false, true, true, false)), (String ((Ascii
          (false, true, true, true, false, true, true, false)), (String
          ((Ascii (false, false, true, false, false, true, true, false)),
          EmptyString))))))))))))))))) (fun lend ->
        bind (emit (IJumpTo lbegin)) (fun _ ->
          bind (emit (ISetLabel lbegin)) (fun _ ->
            bind
              (run_body g fuel rT iFC lOOP KLoop EmptyString (Some (lbegin,
                lend)) flags0 body) (fun fl ->
              bind
                (if fl.fl_ret
                 then bind (gets head_ctx) (fun ctx ->
                        when0 (existsb (is_jump_to lend) ctx)
                          (emit (ISetLabel lend)))
                 else bind (emit (IJumpTo lbegin)) (fun _ ->
                        emit (ISetLabel lend))) (fun _ ->
                bind pop_child (fun _ -> ret ()))))))))

(** val if_condition :
    globals -> nat -> sem_ty -> nat -> ifstmt -> string option ->
    (string * string) option -> unit m **)

let if_condition g fuel rT =
  let rec if_condition0 n0 i label_end label_loop =
    match n0 with
    | O -> out_of_fuel
    | S n' ->
      if_condition_step g fuel rT (if_condition0 n') (loop_statement0 n') i
        label_end label_loop
  and loop_statement0 n0 body =
    match n0 with
    | O -> out_of_fuel
    | S n' -> loop_step g fuel rT (if_condition0 n') (loop_statement0 n') body
  in if_condition0

(** val loop_statement :
    globals -> nat -> sem_ty -> nat -> stmt list -> unit m **)

let loop_statement g fuel rT =
  let rec if_condition0 n0 i label_end label_loop =
    match n0 with
    | O -> out_of_fuel
    | S n' ->
      if_condition_step g fuel rT (if_condition0 n') (loop_statement0 n') i
        label_end label_loop
  and loop_statement0 n0 body =
    match n0 with
    | O -> out_of_fuel
    | S n' -> loop_step g fuel rT (if_condition0 n') (loop_statement0 n') body
  in loop_statement0

(** val init_func_params : (ident * ast_ty) list -> unit m **)

let rec init_func_params = function
| [] -> ret ()
| p :: ps' ->
  let (x, t) = p in
  bind (lookup_value x.iname) (fun vs ->
    match vs with
    | Some _ ->
      add_error { e_kind = EFunctionArgumentNameDuplicated; e_val = (Some
        x.iname); e_loc = loc11 }
    | None ->
      let val0 = { v_inner = x.iname; v_ty = (sem_of_ty t); v_mut = false } in
      bind (insert_value x.iname val0) (fun _ ->
        bind (set_inner_name x.iname) (fun _ ->
          bind (emit (IFnArg (val0, x.iname, (sem_of_ty t)))) (fun _ ->
            init_func_params ps'))))

(** val fn_stmt : globals -> nat -> sem_ty -> bool -> stmt -> bool m **)

let fn_stmt g fuel rT =
  let ex0 = expression g fuel in
  (fun returned st ->
  match st with
  | SLet (x, m0, t, e) ->
    bind (let_binding g fuel x m0 t e) (fun _ -> ret returned)
  | SBind (x, e) -> bind (binding g fuel x e) (fun _ -> ret returned)
  | SCall (f, args) -> bind (call_stmt g fuel f args) (fun _ -> ret returned)
  | SIf i ->
    bind (if_condition g fuel rT fuel i None None) (fun _ -> ret returned)
  | SLoop body ->
    bind (loop_statement g fuel rT fuel body) (fun _ -> ret returned)
  | SRet e ->
    bind (ex0 e) (fun r ->
      bind
        (when0 returned
          (add_error { e_kind = EReturnAlreadyCalled; e_val = None; e_loc =
            loc10 })) (fun _ ->
        match r with
        | Some er ->
          bind (check_type_exists g er.r_ty None loc10) (fun _ ->
            bind
              (when0 (negb (sem_ty_eqb rT er.r_ty))
                (add_error { e_kind = EWrongReturnType; e_val = None; e_loc =
                  loc10 })) (fun _ ->
              bind (gets head_mret) (fun mret ->
                bind
                  (if mret then emit (IFnRetLabel er) else emit (IFnRet er))
                  (fun _ -> ret true))))
        | None -> ret returned))
  | SExprStmt e ->
    bind (ex0 e) (fun r ->
      bind
        (when0 returned
          (add_error { e_kind = EReturnAlreadyCalled; e_val = None; e_loc =
            loc10 })) (fun _ ->
        match r with
        | Some er ->
          bind (check_type_exists g er.r_ty None loc10) (fun _ ->
            bind
              (when0 (negb (sem_ty_eqb rT er.r_ty))
                (add_error { e_kind = EWrongReturnType; e_val = None; e_loc =
                  loc10 })) (fun _ ->
              bind (gets head_mret) (fun mret ->
                bind
                  (if mret then emit (IFnRetLabel er) else emit (IFnRet er))
                  (fun _ -> ret true))))
        | None -> ret returned))
  | _ -> panic PIllKinded)

(** val fn_stmts : globals -> nat -> sem_ty -> bool -> stmt list -> bool m **)

let rec fn_stmts g fuel rT returned = function
| [] -> ret returned
| st :: ss' ->
  bind
    (when0 returned
      (add_error { e_kind = EForbiddenCodeAfterReturnDeprecated; e_val =
        None; e_loc = loc11 })) (fun _ ->
    bind (fn_stmt g fuel rT returned st) (fun returned' ->
      fn_stmts g fuel rT returned' ss'))

(** val fuel_of : fn_decl -> nat **)

let fuel_of f =
  S (S (size_fn f))

(** val function_body_m : globals -> fn_decl -> unit m **)

let function_body_m g f =
  let fuel = fuel_of f in
  let rT = sem_of_ty f.fn_result in
  bind (init_func_params f.fn_params) (fun _ ->
    bind (fn_stmts g fuel rT false f.fn_body) (fun returned ->
      when0 (negb returned)
        (add_error { e_kind = EReturnNotFound; e_val = (Some EmptyString);
          e_loc = (iloc f.fn_name) })))

type gstate = { gs_globals : globals; gs_stack : ginstr list;
                gs_errs : err list }

(** val gstate0 : gstate **)

let gstate0 =
  { gs_globals = { g_types = []; g_consts = []; g_funcs = [] }; gs_stack =
    []; gs_errs = [] }

(** val g_add_error : err -> gstate -> gstate **)

let g_add_error e st =
  { gs_globals = st.gs_globals; gs_stack = st.gs_stack; gs_errs =
    (app st.gs_errs (e :: [])) }

(** val decl_type : gstate -> ident -> (ident * ast_ty) list -> gstate **)

let decl_type st name attrs =
  let g = st.gs_globals in
  if amem name.iname g.g_types
  then g_add_error { e_kind = ETypeAlreadyExist; e_val = (Some name.iname);
         e_loc = (iloc name) } st
  else let t = struct_of_decl name attrs in
       { gs_globals = { g_types = (app g.g_types (((type_name t), t) :: []));
       g_consts = g.g_consts; g_funcs = g.g_funcs }; gs_stack =
       (app st.gs_stack ((GTypes t) :: [])); gs_errs = st.gs_errs }

(** val check_const_links : globals -> (binop * cval) list -> ident option **)

let rec check_const_links g = function
| [] -> None
| p :: l' ->
  let (_, c0) = p in
  (match c0 with
   | CConst c ->
     if amem c.iname g.g_consts then check_const_links g l' else Some c
   | CVal _ -> None)

(** val g_check_type_exists :
    gstate -> sem_ty -> string -> loc -> gstate * bool **)

let g_check_type_exists st t val0 l =
  if is_prim t
  then (st, true)
  else if amem (type_name t) st.gs_globals.g_types
       then (st, true)
       else ((g_add_error { e_kind = ETypeNotFound; e_val = (Some val0);
               e_loc = l } st), false)

(** val decl_const : gstate -> ident -> ast_ty -> cexpr -> gstate **)

let decl_const st name ty v =
  let g = st.gs_globals in
  if amem name.iname g.g_consts
  then g_add_error { e_kind = EConstantAlreadyExist; e_val = (Some
         name.iname); e_loc = (iloc name) } st
  else (match check_const_links g v.ce_rest with
        | Some c ->
          g_add_error { e_kind = EConstantNotFound; e_val = (Some c.iname);
            e_loc = (iloc c) } st
        | None ->
          let c = const_of name ty v in
          let (st', ok) = g_check_type_exists st c.c_ty c.c_name (iloc name)
          in
          if ok
          then let g' = st'.gs_globals in
               { gs_globals = { g_types = g'.g_types; g_consts =
               (app g'.g_consts ((c.c_name, c) :: [])); g_funcs =
               g'.g_funcs }; gs_stack =
               (app st'.gs_stack ((GConst c) :: [])); gs_errs = st'.gs_errs }
          else st')

(** val decl_fn_params :
    gstate -> bool -> loc -> (ident * ast_ty) list -> gstate * bool **)

let rec decl_fn_params st quit floc = function
| [] -> (st, quit)
| p :: ps' ->
  let (x, t) = p in
  if quit
  then decl_fn_params st true floc ps'
  else let (st', ok) = g_check_type_exists st (sem_of_ty t) x.iname floc in
       decl_fn_params st' (negb ok) floc ps'

(** val decl_fn : gstate -> fn_decl -> gstate **)

let decl_fn st f =
  let g = st.gs_globals in
  let name = f.fn_name in
  if amem name.iname g.g_funcs
  then g_add_error { e_kind = EFunctionAlreadyExist; e_val = (Some
         name.iname); e_loc = (iloc name) } st
  else let (st1, ok) =
         g_check_type_exists st (sem_of_ty f.fn_result) name.iname (iloc name)
       in
       let (st2, quit) = decl_fn_params st1 (negb ok) (iloc name) f.fn_params
       in
       if quit
       then st2
       else let g2 = st2.gs_globals in
            let fd = { f_name = name.iname; f_ty = (sem_of_ty f.fn_result);
              f_params = (map (fun p -> sem_of_ty (snd p)) f.fn_params) }
            in
            { gs_globals = { g_types = g2.g_types; g_consts = g2.g_consts;
            g_funcs = (app g2.g_funcs ((name.iname, fd) :: [])) }; gs_stack =
            (app st2.gs_stack ((GFnDecl (name.iname,
              (map (fun p -> ((fst p).iname, (sem_of_ty (snd p))))
                f.fn_params), (sem_of_ty f.fn_result))) :: [])); gs_errs =
            st2.gs_errs }

(** val pass_types : gstate -> top -> gstate **)

let pass_types st = function
| TStructDecl (n0, a) -> decl_type st n0 a
| _ -> st

(** val pass_decls : gstate -> top -> gstate **)

let pass_decls st = function
| TConst (n0, ty, v) -> decl_const st n0 ty v
| TFn f -> decl_fn st f
| _ -> st

(** val declarations : program -> gstate **)

let declarations p =
  fold_left pass_decls p (fold_left pass_types p gstate0)

(** val functions_of : program -> fn_decl list **)

let functions_of p =
  flat_map (fun t -> match t with
                     | TFn f -> f :: []
                     | _ -> []) p

type run_result =
| ROk of output
| RPanic of panic_kind
| ROutOfFuel

(** val function_body : globals -> err list -> fn_decl -> unit res **)

let function_body g errs0 f =
  function_body_m g f { frames = (empty_block :: []); errs = errs0 }

(** val bodies :
    globals -> err list -> block list -> fn_decl list -> (run_result, err
    list * block list) sum **)

let rec bodies g errs0 roots = function
| [] -> Inr (errs0, roots)
| f :: fs' ->
  (match function_body g errs0 f with
   | Ok (_, s) ->
     (match s.frames with
      | [] -> Inl (RPanic PNoFrame)
      | root :: l ->
        (match l with
         | [] -> bodies g s.errs (app roots (root :: [])) fs'
         | _ :: _ -> Inl (RPanic PNoFrame)))
   | Panic k -> Inl (RPanic k)
   | OutOfFuel -> Inl ROutOfFuel)

(** val run : program -> run_result **)

let run p =
  let d = declarations p in
  (match bodies d.gs_globals d.gs_errs [] (functions_of p) with
   | Inl r -> r
   | Inr p0 ->
     let (errors, roots) = p0 in
     ROk { o_errors = errors; o_globals = d.gs_globals; o_gstack =
     d.gs_stack; o_fns = roots })

(** val def_reg : instr -> n option **)

let def_reg = function
| IExprValue (_, r) -> Some r
| IExprConst (_, r) -> Some r
| IExprStruct (_, _, r) -> Some r
| IExprOp (_, _, _, r) -> Some r
| ICall (_, _, r) -> Some r
| ICondExpr (_, _, _, r) -> Some r
| ILogic (_, _, _, r) -> Some r
| IExt (_, r) -> Some r
| _ -> None

(** val defs : instr list -> n list **)

let defs c =
  flat_map (fun i -> match def_reg i with
                     | Some r -> r :: []
                     | None -> []) c

(** val eres_reg : eres -> n list **)

let eres_reg e =
  match e.r_val with
  | RReg n0 -> n0 :: []
  | RPrim _ -> []

(** val use_regs : instr -> n list **)

let use_regs = function
| IExprOp (_, l, r, _) -> app (eres_reg l) (eres_reg r)
| ICall (_, args, _) -> flat_map eres_reg args
| ILet (_, e) -> eres_reg e
| IBind (_, e) -> eres_reg e
| IFnRet e -> eres_reg e
| IFnRetLabel e -> eres_reg e
| IIfCondExpr (e, _, _) -> eres_reg e
| ICondExpr (l, r, _, _) -> app (eres_reg l) (eres_reg r)
| IJumpFnRet e -> eres_reg e
| ILogic (_, l, r, _) -> l :: (r :: [])
| IIfCondLogic (_, _, r) -> r :: []
| _ -> []

(** val set_label_of : instr -> string list **)

let set_label_of = function
| ISetLabel l -> l :: []
| _ -> []

(** val set_labels : instr list -> string list **)

let set_labels c =
  flat_map set_label_of c

(** val target_labels : instr -> string list **)

let target_labels = function
| IJumpTo l -> l :: []
| IIfCondExpr (_, a, b) -> a :: (b :: [])
| IIfCondLogic (a, b, _) -> a :: (b :: [])
| _ -> []

(** val increasing_from : n -> n list -> bool **)

let rec increasing_from prev = function
| [] -> true
| r :: l' -> (&&) (N.ltb prev r) (increasing_from r l')

(** val chk_C09_root : block -> bool **)

let chk_C09_root b =
  (&&) (increasing_from N0 (defs b.b_ctx))
    (forallb (fun r -> N.leb r b.b_reg) (defs b.b_ctx))

(** val chk_C09 : output -> bool **)

let chk_C09 o =
  forallb chk_C09_root o.o_fns

type tree =
| Leaf of expr_val
| Node of tree * binop * tree

(** val insert : tree -> binop -> expr_val -> tree **)

let rec insert t o v =
  match t with
  | Leaf _ -> Node (t, o, (Leaf v))
  | Node (l, o', r) ->
    if N.ltb (prio o') (prio o)
    then Node (l, o', (insert r o v))
    else Node (t, o, (Leaf v))

(** val bracket : expr_val -> links -> tree **)

let bracket v rest =
  fold_left (fun t ov -> insert t (fst ov) (snd ov)) rest (Leaf v)

type ttree =
| TLeaf of n
| TNode of ttree * binop * ttree

(** val binop_eqb : binop -> binop -> bool **)

let binop_eqb a b =
  eqb1 (binop_name a) (binop_name b)

(** val ttree_eqb : ttree -> ttree -> bool **)

let rec ttree_eqb a b =
  match a with
  | TLeaf x -> (match b with
                | TLeaf y -> N.eqb x y
                | TNode (_, _, _) -> false)
  | TNode (l, o, r) ->
    (match b with
     | TLeaf _ -> false
     | TNode (l', o', r') ->
       (&&) ((&&) (ttree_eqb l l') (binop_eqb o o')) (ttree_eqb r r'))

(** val ref_tree_of : nat -> tree -> ttree option **)

let rec ref_tree_of fuel t =
  match fuel with
  | O -> None
  | S f ->
    (match t with
     | Leaf v0 ->
       (match v0 with
        | EVSub e -> let Expr (v, rest) = e in ref_tree_of f (bracket v rest)
        | EVExt (_, tag) -> Some (TLeaf tag)
        | _ -> None)
     | Node (l, o, r) ->
       (match ref_tree_of f l with
        | Some a ->
          (match ref_tree_of f r with
           | Some b -> Some (TNode (a, o, b))
           | None -> None)
        | None -> None))

(** val ref_of_expr : expr -> ttree option **)

let ref_of_expr e = match e with
| Expr (v, rest) -> ref_tree_of (S (S (size_expr e))) (bracket v rest)

(** val env_lookup : n -> (n * ttree) list -> ttree option **)

let rec env_lookup n0 = function
| [] -> None
| p :: env' ->
  let (m0, t) = p in if N.eqb n0 m0 then Some t else env_lookup n0 env'

(** val operand_tree : eres -> (n * ttree) list -> ttree option **)

let operand_tree e env =
  match e.r_val with
  | RReg n0 -> env_lookup n0 env
  | RPrim _ -> None

(** val let_trees : instr list -> (n * ttree) list -> ttree option list **)

let rec let_trees code env =
  match code with
  | [] -> []
  | i :: c ->
    (match i with
     | IExprOp (o, l, r, reg) ->
       (match operand_tree l env with
        | Some a ->
          (match operand_tree r env with
           | Some b -> let_trees c ((reg, (TNode (a, o, b))) :: env)
           | None -> let_trees c env)
        | None -> let_trees c env)
     | ILet (_, e) -> (operand_tree e env) :: (let_trees c env)
     | IExt (tag, r) -> let_trees c ((r, (TLeaf tag)) :: env)
     | _ -> let_trees c env)

(** val lets_of_stmt : stmt -> expr list **)

let rec lets_of_stmt = function
| SLet (_, _, _, e) -> e :: []
| SIf i -> lets_of_if i
| SLoop body ->
  let rec go = function
  | [] -> []
  | x :: l' -> app (lets_of_stmt x) (go l')
  in go body
| _ -> []

(** val lets_of_if : ifstmt -> expr list **)

and lets_of_if = function
| IfS (_, body, els, elif) ->
  app (lets_of_ifbody body)
    (app (match els with
          | Some b -> lets_of_ifbody b
          | None -> [])
      (match elif with
       | Some i' -> lets_of_if i'
       | None -> []))

(** val lets_of_ifbody : ifbody -> expr list **)

and lets_of_ifbody = function
| IBIf ss ->
  let rec go = function
  | [] -> []
  | x :: l' -> app (lets_of_stmt x) (go l')
  in go ss
| IBLoop ss ->
  let rec go = function
  | [] -> []
  | x :: l' -> app (lets_of_stmt x) (go l')
  in go ss

(** val lets_of_fn : fn_decl -> expr list **)

let lets_of_fn f =
  flat_map lets_of_stmt f.fn_body

(** val match_lets : expr list -> ttree option list -> bool **)

let rec match_lets src got =
  match src with
  | [] -> (match got with
           | [] -> true
           | _ :: _ -> false)
  | e :: src' ->
    (match got with
     | [] -> false
     | g :: got' ->
       (&&)
         (match ref_of_expr e with
          | Some t -> (match g with
                       | Some t' -> ttree_eqb t t'
                       | None -> false)
          | None -> true) (match_lets src' got'))

(** val chk_C07_fn : fn_decl -> block -> bool **)

let chk_C07_fn f root =
  match_lets (lets_of_fn f) (let_trees root.b_ctx [])

(** val chk_C07_fns : fn_decl list -> block list -> bool **)

let rec chk_C07_fns fs roots =
  match fs with
  | [] -> (match roots with
           | [] -> true
           | _ :: _ -> false)
  | f :: fs' ->
    (match roots with
     | [] -> false
     | r :: roots' -> (&&) (chk_C07_fn f r) (chk_C07_fns fs' roots'))

(** val chk_C07 : program -> output -> bool **)

let chk_C07 p o =
  match o.o_errors with
  | [] -> chk_C07_fns (functions_of p) o.o_fns
  | _ :: _ -> true

(** val ttree_ops : ttree -> nat **)

let rec ttree_ops = function
| TLeaf _ -> O
| TNode (l, _, r) -> S (add (ttree_ops l) (ttree_ops r))

(** val judged_C07 : program -> nat **)

let judged_C07 p =
  length
    (filter (fun e ->
      match ref_of_expr e with
      | Some t -> Nat.leb (S (S O)) (ttree_ops t)
      | None -> false) (flat_map lets_of_fn (functions_of p)))

(** val decl_value : instr -> value option **)

let decl_value = function
| ILet (v, _) -> Some v
| IFnArg (v, _, _) -> Some v
| _ -> None

(** val decl_values : instr list -> value list **)

let decl_values c =
  flat_map (fun i -> match decl_value i with
                     | Some v -> v :: []
                     | None -> []) c

(** val decl_names : instr list -> string list **)

let decl_names c =
  map (fun v -> v.v_inner) (decl_values c)

(** val read_values : instr -> value list **)

let read_values = function
| IExprValue (v, _) -> v :: []
| IExprStruct (v, _, _) -> v :: []
| IBind (v, _) -> v :: []
| _ -> []

(** val reads : instr list -> value list **)

let reads c =
  flat_map read_values c

(** val value_eqb : value -> value -> bool **)

let value_eqb a b =
  (&&) ((&&) (eqb1 a.v_inner b.v_inner) (sem_ty_eqb a.v_ty b.v_ty))
    (eqb a.v_mut b.v_mut)

(** val nodup_strings : string list -> bool **)

let rec nodup_strings = function
| [] -> true
| x :: l' -> (&&) (negb (smem x l')) (nodup_strings l')

(** val chk_C12_root : block -> bool **)

let chk_C12_root b =
  (&&) (nodup_strings (decl_names b.b_ctx))
    (forallb (fun v -> existsb (value_eqb v) (decl_values b.b_ctx))
      (reads b.b_ctx))

(** val chk_C12 : output -> bool **)

let chk_C12 o =
  forallb chk_C12_root o.o_fns

type event =
| EvLet
| EvAssign
| EvCall of string
| EvRet

type status =
| Returned
| OutOfOutcomes
| OutOfFuel0
| FellOff
| BadLabel of string

type trace = event list * status

(** val event_eqb : event -> event -> bool **)

let event_eqb a b =
  match a with
  | EvLet -> (match b with
              | EvLet -> true
              | _ -> false)
  | EvAssign -> (match b with
                 | EvAssign -> true
                 | _ -> false)
  | EvCall f -> (match b with
                 | EvCall g -> eqb1 f g
                 | _ -> false)
  | EvRet -> (match b with
              | EvRet -> true
              | _ -> false)

(** val events_eqb : event list -> event list -> bool **)

let rec events_eqb a b =
  match a with
  | [] -> (match b with
           | [] -> true
           | _ :: _ -> false)
  | x :: a' ->
    (match b with
     | [] -> false
     | y :: b' -> (&&) (event_eqb x y) (events_eqb a' b'))

(** val prefixb : event list -> event list -> bool **)

let rec prefixb a b =
  match a with
  | [] -> true
  | x :: a' ->
    (match b with
     | [] -> false
     | y :: b' -> (&&) (event_eqb x y) (prefixb a' b'))

(** val find_label : string -> instr list -> nat option **)

let rec find_label l = function
| [] -> None
| i :: code' ->
  if match i with
     | ISetLabel l' -> eqb1 l l'
     | _ -> false
  then Some O
  else (match find_label l code' with
        | Some n0 -> Some (S n0)
        | None -> None)

type action =
| Next of event list * nat * bool list
| Halt of event list * status

(** val goto : instr list -> string -> bool list -> action **)

let goto code l w =
  match find_label l code with
  | Some pc -> Next ([], pc, w)
  | None -> Halt ([], (BadLabel l))

(** val branch : instr list -> string -> string -> bool list -> action **)

let branch code lt lf = function
| [] -> Halt ([], OutOfOutcomes)
| b :: w' -> goto code (if b then lt else lf) w'

(** val instr_step : instr list -> instr -> nat -> bool list -> action **)

let instr_step code i pc w =
  match i with
  | ICall (f, _, _) -> Next (((EvCall f.f_name) :: []), (S pc), w)
  | ILet (_, _) -> Next ((EvLet :: []), (S pc), w)
  | IBind (_, _) -> Next ((EvAssign :: []), (S pc), w)
  | IFnRet _ -> Halt ((EvRet :: []), Returned)
  | IFnRetLabel _ -> Halt ((EvRet :: []), Returned)
  | IJumpTo l -> goto code l w
  | IIfCondExpr (_, lt, lf) -> branch code lt lf w
  | IJumpFnRet _ -> Halt ((EvRet :: []), Returned)
  | IIfCondLogic (lt, lf, _) -> branch code lt lf w
  | _ -> Next ([], (S pc), w)

(** val flat_step : instr list -> nat -> bool list -> action **)

let flat_step code pc w =
  match nth_error code pc with
  | Some i -> instr_step code i pc w
  | None -> Halt ([], FellOff)

(** val prepend_trace : event list -> trace -> trace **)

let prepend_trace ev0 t =
  ((app ev0 (fst t)), (snd t))

(** val flat_run : instr list -> nat -> nat -> bool list -> trace **)

let rec flat_run code fuel pc w =
  match fuel with
  | O -> ([], OutOfFuel0)
  | S fuel' ->
    (match flat_step code pc w with
     | Next (ev0, pc', w') -> prepend_trace ev0 (flat_run code fuel' pc' w')
     | Halt (ev0, st) -> (ev0, st))

(** val flat_exec : instr list -> bool list -> nat -> trace **)

let flat_exec code outcomes fuel =
  flat_run code fuel O outcomes

(** val expr_events : expr -> event list **)

let rec expr_events = function
| Expr (v, rest) ->
  app (val_events v)
    (let rec go = function
     | [] -> []
     | p :: l' -> let (_, v') = p in app (val_events v') (go l')
     in go rest)

(** val val_events : expr_val -> event list **)

and val_events = function
| EVCall (f, args) ->
  app
    (let rec go = function
     | [] -> []
     | a :: l' -> app (expr_events a) (go l')
     in go args) ((EvCall f.iname) :: [])
| EVSub e -> expr_events e
| _ -> []

(** val exprs_events : expr list -> event list **)

let exprs_events l =
  flat_map expr_events l

(** val lcond_events : lcond -> event list **)

let rec lcond_events = function
| LC (l, _, r, next) ->
  app (expr_events l)
    (app (expr_events r)
      (match next with
       | Some p -> let (_, c') = p in lcond_events c'
       | None -> []))

(** val cond_events : cond -> event list **)

let cond_events = function
| CSingle e -> expr_events e
| CLogic l -> lcond_events l

type completion =
| Normal
| Brk
| Cont
| JumpOuterEnd
| Stop of status

type sres = (event list * completion) * bool list

(** val prepend : event list -> sres -> sres **)

let prepend ev0 = function
| (p, w) -> let (ev', c) = p in (((app ev0 ev'), c), w)

(** val seq0 : sres -> (bool list -> sres) -> sres **)

let seq0 r k =
  let (p, w) = r in
  let (ev0, c) = p in (match c with
                       | Normal -> prepend ev0 (k w)
                       | _ -> r)

(** val ifbody_stmts : ifbody -> stmt list **)

let ifbody_stmts = function
| IBIf ss -> ss
| IBLoop ss -> ss

(** val if_exit : bool -> bool -> sres -> sres **)

let if_exit quirk in_if = function
| (p, w) ->
  let (ev0, c) = p in
  ((ev0,
  (match c with
   | Normal -> if (&&) quirk in_if then JumpOuterEnd else Normal
   | JumpOuterEnd -> if in_if then JumpOuterEnd else Normal
   | _ -> c)), w)

(** val loop_exit : sres -> (bool list -> sres) -> sres **)

let loop_exit r again =
  let (p, w) = r in
  let (ev0, c) = p in
  (match c with
   | Normal -> prepend ev0 (again w)
   | Brk -> ((ev0, Normal), w)
   | Cont -> prepend ev0 (again w)
   | _ -> r)

(** val out_of_fuel_res : bool list -> sres **)

let out_of_fuel_res w =
  (([], (Stop OutOfFuel0)), w)

(** val exec_stmts : bool -> nat -> bool -> stmt list -> bool list -> sres **)

let exec_stmts quirk =
  let rec exec_stmt n0 in_if s w =
    match n0 with
    | O -> out_of_fuel_res w
    | S n' ->
      (match s with
       | SLet (_, _, _, e) ->
         (((app (expr_events e) (EvLet :: [])), Normal), w)
       | SBind (_, e) -> (((app (expr_events e) (EvAssign :: [])), Normal), w)
       | SCall (f, args) ->
         (((app (exprs_events args) ((EvCall f.iname) :: [])), Normal), w)
       | SIf i -> if_exit quirk in_if (exec_if n' i w)
       | SLoop body -> exec_loop n' body w
       | SRet e -> (((app (expr_events e) (EvRet :: [])), (Stop Returned)), w)
       | SExprStmt e ->
         (((app (expr_events e) (EvRet :: [])), (Stop Returned)), w)
       | SBreak -> (([], Brk), w)
       | SContinue -> (([], Cont), w))
  and exec_stmts0 n0 in_if ss w =
    match ss with
    | [] -> (([], Normal), w)
    | s :: ss' ->
      (match n0 with
       | O -> out_of_fuel_res w
       | S n' -> seq0 (exec_stmt n' in_if s w) (exec_stmts0 n' in_if ss'))
  and exec_if n0 i w =
    match n0 with
    | O -> out_of_fuel_res w
    | S n' ->
      let IfS (c, body, els, elif) = i in
      (match w with
       | [] -> (((cond_events c), (Stop OutOfOutcomes)), [])
       | b :: w' ->
         prepend (cond_events c)
           (if b
            then exec_stmts0 n' true (ifbody_stmts body) w'
            else (match els with
                  | Some eb -> exec_stmts0 n' true (ifbody_stmts eb) w'
                  | None ->
                    (match elif with
                     | Some ei -> exec_if n' ei w'
                     | None -> (([], Normal), w')))))
  and exec_loop n0 body w =
    match n0 with
    | O -> out_of_fuel_res w
    | S n' -> loop_exit (exec_stmts0 n' false body w) (exec_loop n' body)
  in exec_stmts0

(** val finish : sres -> trace **)

let finish = function
| (p, _) ->
  let (ev0, c) = p in
  (match c with
   | Stop st -> (ev0, st)
   | _ -> (ev0, FellOff))

(** val struct_exec : bool -> stmt list -> bool list -> nat -> trace **)

let struct_exec quirk body outcomes fuel =
  finish (exec_stmts quirk fuel false body outcomes)

(** val agree : trace -> trace -> bool **)

let agree t1 t2 =
  match snd t1 with
  | Returned ->
    (match snd t2 with
     | Returned -> events_eqb (fst t1) (fst t2)
     | _ -> (||) (prefixb (fst t1) (fst t2)) (prefixb (fst t2) (fst t1)))
  | _ -> (||) (prefixb (fst t1) (fst t2)) (prefixb (fst t2) (fst t1))

(** val flat_ok : status -> bool **)

let flat_ok = function
| FellOff -> false
| BadLabel _ -> false
| _ -> true

(** val all_outcomes : nat -> bool list list **)

let rec all_outcomes = function
| O -> [] :: []
| S k' ->
  app (map (fun x -> true :: x) (all_outcomes k'))
    (map (fun x -> false :: x) (all_outcomes k'))

(** val forallb2 : ('a1 -> 'a2 -> bool) -> 'a1 list -> 'a2 list -> bool **)

let rec forallb2 f la lb =
  match la with
  | [] -> (match lb with
           | [] -> true
           | _ :: _ -> false)
  | a :: la' ->
    (match lb with
     | [] -> false
     | b :: lb' -> (&&) (f a b) (forallb2 f la' lb'))

(** val chk_C05_word :
    bool -> nat -> fn_decl -> block -> bool list -> bool **)

let chk_C05_word quirk fuel f root w =
  let tf = flat_exec root.b_ctx w fuel in
  let ts = struct_exec quirk f.fn_body w fuel in
  (&&) ((&&) (flat_ok (snd tf)) (flat_ok (snd ts))) (agree tf ts)

(** val chk_C05_fn : bool -> nat -> nat -> fn_decl -> block -> bool **)

let chk_C05_fn quirk k fuel f root =
  forallb (chk_C05_word quirk fuel f root) (all_outcomes k)

(** val chk_C05 : bool -> nat -> nat -> program -> output -> bool **)

let chk_C05 quirk k fuel p o =
  forallb2 (chk_C05_fn quirk k fuel) (functions_of p) o.o_fns

(** val nodupb : string list -> bool **)

let rec nodupb = function
| [] -> true
| x :: l' -> (&&) (negb (smem x l')) (nodupb l')

(** val chk_C10_unique_root : block -> bool **)

let chk_C10_unique_root root =
  nodupb (set_labels root.b_ctx)

(** val chk_C10_unique : output -> bool **)

let chk_C10_unique o =
  forallb chk_C10_unique_root o.o_fns

(** val chk_C10_resolve_root : block -> bool **)

let chk_C10_resolve_root root =
  forallb (fun i ->
    forallb (fun l -> smem l (set_labels root.b_ctx)) (target_labels i))
    root.b_ctx

(** val chk_C10_resolve : output -> bool **)

let chk_C10_resolve o =
  forallb chk_C10_resolve_root o.o_fns

(** val is_fn_ret : instr -> bool **)

let is_fn_ret = function
| IFnRet _ -> true
| IFnRetLabel _ -> true
| _ -> false

(** val is_fn_ret_label : instr -> bool **)

let is_fn_ret_label = function
| IFnRetLabel _ -> true
| _ -> false

(** val is_jump_fn_ret : instr -> bool **)

let is_jump_fn_ret = function
| IJumpFnRet _ -> true
| _ -> false

(** val count_instr : (instr -> bool) -> instr list -> nat **)

let count_instr f c =
  length (filter f c)

(** val rets_stmt : stmt -> nat **)

let rec rets_stmt = function
| SIf i -> rets_if i
| SLoop body ->
  let rec go = function
  | [] -> O
  | s' :: l' -> add (rets_stmt s') (go l')
  in go body
| SRet _ -> S O
| _ -> O

(** val rets_if : ifstmt -> nat **)

and rets_if = function
| IfS (_, body, els, elif) ->
  add
    (add (rets_ifbody body)
      (match els with
       | Some b -> rets_ifbody b
       | None -> O)) (match elif with
                      | Some i' -> rets_if i'
                      | None -> O)

(** val rets_ifbody : ifbody -> nat **)

and rets_ifbody = function
| IBIf ss ->
  let rec go = function
  | [] -> O
  | s' :: l' -> add (rets_stmt s') (go l')
  in go ss
| IBLoop ss ->
  let rec go = function
  | [] -> O
  | s' :: l' -> add (rets_stmt s') (go l')
  in go ss

(** val nested_rets_stmt : stmt -> nat **)

let nested_rets_stmt s = match s with
| SRet _ -> O
| SExprStmt _ -> O
| _ -> rets_stmt s

(** val nested_rets : stmt list -> nat **)

let nested_rets body =
  fold_right (fun s n0 -> add (nested_rets_stmt s) n0) O body

(** val chk_C11_fn : fn_decl -> block -> bool **)

let chk_C11_fn f root =
  match rev0 root.b_ctx with
  | [] -> false
  | last :: before ->
    (&&)
      ((&&) ((&&) (is_fn_ret last) (negb (existsb is_fn_ret before)))
        (eqb (is_fn_ret_label last) (existsb is_jump_fn_ret before)))
      (Nat.eqb (count_instr is_jump_fn_ret root.b_ctx)
        (nested_rets f.fn_body))

(** val chk_C11 : program -> output -> bool **)

let chk_C11 p o =
  forallb2 chk_C11_fn (functions_of p) o.o_fns

type outcome =
| Registers of ginstr
| Reports of err

(** val registered : outcome list -> ginstr list **)

let registered l =
  flat_map (fun o -> match o with
                     | Registers g -> g :: []
                     | Reports _ -> []) l

(** val types_of : ginstr list -> (string * sem_ty) list **)

let types_of l =
  flat_map (fun g ->
    match g with
    | GTypes t -> ((type_name t), t) :: []
    | _ -> []) l

(** val consts_of : ginstr list -> (string * const_sem) list **)

let consts_of l =
  flat_map (fun g -> match g with
                     | GConst c -> (c.c_name, c) :: []
                     | _ -> []) l

(** val funcs_of : ginstr list -> (string * func_sem) list **)

let funcs_of l =
  flat_map (fun g ->
    match g with
    | GFnDecl (n0, ps, r) ->
      (n0, { f_name = n0; f_ty = r; f_params = (map snd ps) }) :: []
    | _ -> []) l

(** val pass1 : string list -> program -> outcome list **)

let rec pass1 seen0 = function
| [] -> []
| t :: p' ->
  (match t with
   | TStructDecl (n0, a) ->
     if smem n0.iname seen0
     then (Reports { e_kind = ETypeAlreadyExist; e_val = (Some n0.iname);
            e_loc = (iloc n0) }) :: (pass1 seen0 p')
     else (Registers (GTypes
            (struct_of_decl n0 a))) :: (pass1 (n0.iname :: seen0) p')
   | _ -> pass1 seen0 p')

(** val spec_cval : cval -> cval_sem **)

let spec_cval = function
| CConst n0 -> CCs n0.iname
| CVal v -> CVs v

(** val spec_const : ident -> ast_ty -> cexpr -> const_sem **)

let spec_const name ty v =
  { c_name = name.iname; c_ty = (sem_of_ty ty); c_head =
    (spec_cval v.ce_head); c_rest =
    (map (fun l -> ((fst l), (spec_cval (snd l)))) v.ce_rest) }

(** val spec_fn_instr : fn_decl -> ginstr **)

let spec_fn_instr f =
  GFnDecl (f.fn_name.iname,
    (map (fun q -> ((fst q).iname, (sem_of_ty (snd q)))) f.fn_params),
    (sem_of_ty f.fn_result))

(** val missing_const : string list -> (binop * cval) list -> ident option **)

let rec missing_const cs = function
| [] -> None
| p :: l' ->
  let (_, c0) = p in
  (match c0 with
   | CConst c -> if smem c.iname cs then missing_const cs l' else Some c
   | CVal _ -> None)

(** val bad_param :
    (sem_ty -> bool) -> (ident * ast_ty) list -> ident option **)

let rec bad_param tok0 = function
| [] -> None
| p :: ps' ->
  let (x, t) = p in if tok0 (sem_of_ty t) then bad_param tok0 ps' else Some x

(** val const_outcome :
    (sem_ty -> bool) -> string list -> ident -> ast_ty -> cexpr -> outcome **)

let const_outcome tok0 cs n0 ty v =
  if smem n0.iname cs
  then Reports { e_kind = EConstantAlreadyExist; e_val = (Some n0.iname);
         e_loc = (iloc n0) }
  else (match missing_const cs v.ce_rest with
        | Some c ->
          Reports { e_kind = EConstantNotFound; e_val = (Some c.iname);
            e_loc = (iloc c) }
        | None ->
          if tok0 (sem_of_ty ty)
          then Registers (GConst (spec_const n0 ty v))
          else Reports { e_kind = ETypeNotFound; e_val = (Some n0.iname);
                 e_loc = (iloc n0) })

(** val fn_outcome : (sem_ty -> bool) -> string list -> fn_decl -> outcome **)

let fn_outcome tok0 fs f =
  let n0 = f.fn_name in
  if smem n0.iname fs
  then Reports { e_kind = EFunctionAlreadyExist; e_val = (Some n0.iname);
         e_loc = (iloc n0) }
  else if tok0 (sem_of_ty f.fn_result)
       then (match bad_param tok0 f.fn_params with
             | Some x ->
               Reports { e_kind = ETypeNotFound; e_val = (Some x.iname);
                 e_loc = (iloc n0) }
             | None -> Registers (spec_fn_instr f))
       else Reports { e_kind = ETypeNotFound; e_val = (Some n0.iname);
              e_loc = (iloc n0) }

(** val is_reg : outcome -> bool **)

let is_reg = function
| Registers _ -> true
| Reports _ -> false

(** val pass2 :
    (sem_ty -> bool) -> string list -> string list -> program -> outcome list **)

let rec pass2 tok0 cs fs = function
| [] -> []
| t :: p' ->
  (match t with
   | TConst (n0, ty, v) ->
     let o = const_outcome tok0 cs n0 ty v in
     o :: (pass2 tok0 (if is_reg o then n0.iname :: cs else cs) fs p')
   | TFn f ->
     let o = fn_outcome tok0 fs f in
     o :: (pass2 tok0 cs (if is_reg o then f.fn_name.iname :: fs else fs) p')
   | _ -> pass2 tok0 cs fs p')

(** val spec_pass1 : program -> outcome list **)

let spec_pass1 p =
  pass1 [] p

(** val spec_types : program -> (string * sem_ty) list **)

let spec_types p =
  types_of (registered (spec_pass1 p))

(** val type_ok : (string * sem_ty) list -> sem_ty -> bool **)

let type_ok t t0 =
  (||) (is_prim t0) (amem (type_name t0) t)

(** val spec_pass2 : program -> outcome list **)

let spec_pass2 p =
  pass2 (type_ok (spec_types p)) [] [] p

(** val spec_consts : program -> (string * const_sem) list **)

let spec_consts p =
  consts_of (registered (spec_pass2 p))

(** val spec_funcs : program -> (string * func_sem) list **)

let spec_funcs p =
  funcs_of (registered (spec_pass2 p))

(** val spec_gstack : program -> ginstr list **)

let spec_gstack p =
  app (registered (spec_pass1 p)) (registered (spec_pass2 p))

(** val spec_fns : program -> fn_decl list **)

let spec_fns p =
  flat_map (fun t -> match t with
                     | TFn f -> f :: []
                     | _ -> []) p

(** val list_eqb : ('a1 -> 'a1 -> bool) -> 'a1 list -> 'a1 list -> bool **)

let rec list_eqb eqb2 l l' =
  match l with
  | [] -> (match l' with
           | [] -> true
           | _ :: _ -> false)
  | a :: r ->
    (match l' with
     | [] -> false
     | a' :: r' -> (&&) (eqb2 a a') (list_eqb eqb2 r r'))

(** val binop_eqb0 : binop -> binop -> bool **)

let binop_eqb0 a b =
  match a with
  | OPlus -> (match b with
              | OPlus -> true
              | _ -> false)
  | OMinus -> (match b with
               | OMinus -> true
               | _ -> false)
  | OMultiply -> (match b with
                  | OMultiply -> true
                  | _ -> false)
  | ODivide -> (match b with
                | ODivide -> true
                | _ -> false)
  | OShiftLeft -> (match b with
                   | OShiftLeft -> true
                   | _ -> false)
  | OShiftRight -> (match b with
                    | OShiftRight -> true
                    | _ -> false)
  | OAnd -> (match b with
             | OAnd -> true
             | _ -> false)
  | OOr -> (match b with
            | OOr -> true
            | _ -> false)
  | OXor -> (match b with
             | OXor -> true
             | _ -> false)
  | OEq -> (match b with
            | OEq -> true
            | _ -> false)
  | ONotEq -> (match b with
               | ONotEq -> true
               | _ -> false)
  | OGreat -> (match b with
               | OGreat -> true
               | _ -> false)
  | OLess -> (match b with
              | OLess -> true
              | _ -> false)
  | OGreatEq -> (match b with
                 | OGreatEq -> true
                 | _ -> false)
  | OLessEq -> (match b with
                | OLessEq -> true
                | _ -> false)

(** val prim_val_eqb : prim_val -> prim_val -> bool **)

let prim_val_eqb a b =
  (&&) (prim_ty_eqb a.pv_ty b.pv_ty) (Z.eqb a.pv_bits b.pv_bits)

(** val cval_sem_eqb : cval_sem -> cval_sem -> bool **)

let cval_sem_eqb a b =
  match a with
  | CCs x -> (match b with
              | CCs y -> eqb1 x y
              | CVs _ -> false)
  | CVs v -> (match b with
              | CCs _ -> false
              | CVs w -> prim_val_eqb v w)

(** val const_sem_eqb : const_sem -> const_sem -> bool **)

let const_sem_eqb a b =
  (&&)
    ((&&) ((&&) (eqb1 a.c_name b.c_name) (sem_ty_eqb a.c_ty b.c_ty))
      (cval_sem_eqb a.c_head b.c_head))
    (list_eqb (fun x y ->
      (&&) (binop_eqb0 (fst x) (fst y)) (cval_sem_eqb (snd x) (snd y)))
      a.c_rest b.c_rest)

(** val func_sem_eqb : func_sem -> func_sem -> bool **)

let func_sem_eqb a b =
  (&&) ((&&) (eqb1 a.f_name b.f_name) (sem_ty_eqb a.f_ty b.f_ty))
    (list_eqb sem_ty_eqb a.f_params b.f_params)

(** val ginstr_eqb : ginstr -> ginstr -> bool **)

let ginstr_eqb a b =
  match a with
  | GTypes t -> (match b with
                 | GTypes u -> sem_ty_eqb t u
                 | _ -> false)
  | GConst c -> (match b with
                 | GConst d -> const_sem_eqb c d
                 | _ -> false)
  | GFnDecl (n0, ps, r) ->
    (match b with
     | GFnDecl (m0, qs, s) ->
       (&&)
         ((&&) (eqb1 n0 m0)
           (list_eqb (fun x y ->
             (&&) (eqb1 (fst x) (fst y)) (sem_ty_eqb (snd x) (snd y))) ps qs))
         (sem_ty_eqb r s)
     | _ -> false)

(** val table_eqb :
    ('a1 -> 'a1 -> bool) -> (string * 'a1) list -> (string * 'a1) list -> bool **)

let table_eqb veqb spec out =
  (&&) (Nat.eqb (length out) (length spec))
    (forallb (fun kv ->
      match alookup (fst kv) out with
      | Some v -> veqb (snd kv) v
      | None -> false) spec)

(** val chk_C15 : program -> output -> bool **)

let chk_C15 p o =
  (&&)
    ((&&)
      ((&&)
        ((&&) (table_eqb sem_ty_eqb (spec_types p) o.o_globals.g_types)
          (table_eqb const_sem_eqb (spec_consts p) o.o_globals.g_consts))
        (table_eqb func_sem_eqb (spec_funcs p) o.o_globals.g_funcs))
      (list_eqb ginstr_eqb (spec_gstack p) o.o_gstack))
    (Nat.eqb (length o.o_fns) (length (spec_fns p)))

(** val cmpop_eqb : cmpop -> cmpop -> bool **)

let cmpop_eqb a b =
  match a with
  | CGreat -> (match b with
               | CGreat -> true
               | _ -> false)
  | CLess -> (match b with
              | CLess -> true
              | _ -> false)
  | CEq -> (match b with
            | CEq -> true
            | _ -> false)
  | CGreatEq -> (match b with
                 | CGreatEq -> true
                 | _ -> false)
  | CLessEq -> (match b with
                | CLessEq -> true
                | _ -> false)
  | CNotEq -> (match b with
               | CNotEq -> true
               | _ -> false)

(** val logicop_eqb : logicop -> logicop -> bool **)

let logicop_eqb a b =
  match a with
  | LAnd -> (match b with
             | LAnd -> true
             | LOr -> false)
  | LOr -> (match b with
            | LAnd -> false
            | LOr -> true)

(** val eres_val_eqb : eres_val -> eres_val -> bool **)

let eres_val_eqb a b =
  match a with
  | RReg n0 -> (match b with
                | RReg m0 -> N.eqb n0 m0
                | RPrim _ -> false)
  | RPrim p -> (match b with
                | RReg _ -> false
                | RPrim q -> prim_val_eqb p q)

(** val eres_eqb : eres -> eres -> bool **)

let eres_eqb a b =
  (&&) (sem_ty_eqb a.r_ty b.r_ty) (eres_val_eqb a.r_val b.r_val)

(** val instr_eqb : instr -> instr -> bool **)

let instr_eqb a b =
  match a with
  | IExprValue (v, r) ->
    (match b with
     | IExprValue (v', r') -> (&&) (value_eqb v v') (N.eqb r r')
     | _ -> false)
  | IExprConst (c, r) ->
    (match b with
     | IExprConst (c', r') -> (&&) (const_sem_eqb c c') (N.eqb r r')
     | _ -> false)
  | IExprStruct (v, i, r) ->
    (match b with
     | IExprStruct (v', i', r') ->
       (&&) ((&&) (value_eqb v v') (N.eqb i i')) (N.eqb r r')
     | _ -> false)
  | IExprOp (o, l, r, g) ->
    (match b with
     | IExprOp (o', l', r', g') ->
       (&&) ((&&) ((&&) (binop_eqb0 o o') (eres_eqb l l')) (eres_eqb r r'))
         (N.eqb g g')
     | _ -> false)
  | ICall (f, args, r) ->
    (match b with
     | ICall (f', args', r') ->
       (&&) ((&&) (func_sem_eqb f f') (list_eqb eres_eqb args args'))
         (N.eqb r r')
     | _ -> false)
  | ILet (v, e) ->
    (match b with
     | ILet (v', e') -> (&&) (value_eqb v v') (eres_eqb e e')
     | _ -> false)
  | IBind (v, e) ->
    (match b with
     | IBind (v', e') -> (&&) (value_eqb v v') (eres_eqb e e')
     | _ -> false)
  | IFnRet e -> (match b with
                 | IFnRet e' -> eres_eqb e e'
                 | _ -> false)
  | IFnRetLabel e ->
    (match b with
     | IFnRetLabel e' -> eres_eqb e e'
     | _ -> false)
  | ISetLabel l -> (match b with
                    | ISetLabel l' -> eqb1 l l'
                    | _ -> false)
  | IJumpTo l -> (match b with
                  | IJumpTo l' -> eqb1 l l'
                  | _ -> false)
  | IIfCondExpr (e, x, y) ->
    (match b with
     | IIfCondExpr (e', x', y') ->
       (&&) ((&&) (eres_eqb e e') (eqb1 x x')) (eqb1 y y')
     | _ -> false)
  | ICondExpr (l, r, c, g) ->
    (match b with
     | ICondExpr (l', r', c', g') ->
       (&&) ((&&) ((&&) (eres_eqb l l') (eres_eqb r r')) (cmpop_eqb c c'))
         (N.eqb g g')
     | _ -> false)
  | IJumpFnRet e -> (match b with
                     | IJumpFnRet e' -> eres_eqb e e'
                     | _ -> false)
  | ILogic (o, x, y, g) ->
    (match b with
     | ILogic (o', x', y', g') ->
       (&&) ((&&) ((&&) (logicop_eqb o o') (N.eqb x x')) (N.eqb y y'))
         (N.eqb g g')
     | _ -> false)
  | IIfCondLogic (x, y, g) ->
    (match b with
     | IIfCondLogic (x', y', g') ->
       (&&) ((&&) (eqb1 x x') (eqb1 y y')) (N.eqb g g')
     | _ -> false)
  | IFnArg (v, n0, t) ->
    (match b with
     | IFnArg (v', n', t') ->
       (&&) ((&&) (value_eqb v v') (eqb1 n0 n')) (sem_ty_eqb t t')
     | _ -> false)
  | IExt (t, r) ->
    (match b with
     | IExt (t', r') -> (&&) (N.eqb t t') (N.eqb r r')
     | _ -> false)

(** val subseqb : ('a1 -> 'a1 -> bool) -> 'a1 list -> 'a1 list -> bool **)

let rec subseqb eqb2 a = function
| [] -> (match a with
         | [] -> true
         | _ :: _ -> false)
| y :: b' ->
  (match a with
   | [] -> true
   | x :: a' -> if eqb2 x y then subseqb eqb2 a' b' else subseqb eqb2 a b')

(** val chk_tree_sub : block -> bool **)

let rec chk_tree_sub b =
  let { b_values = _; b_inner = _; b_labels = _; b_reg = _; b_mret = _;
    b_ctx = ctx; b_kids = kids } = b
  in
  let rec go = function
  | [] -> true
  | k :: ks' ->
    (&&) ((&&) (subseqb instr_eqb k.b_ctx ctx) (chk_tree_sub k)) (go ks')
  in go kids

(** val chk_C18_sub : output -> bool **)

let chk_C18_sub o =
  forallb chk_tree_sub o.o_fns

type shape =
| Sh of shape list

(** val shape_of_block : block -> shape **)

let rec shape_of_block b =
  let { b_values = _; b_inner = _; b_labels = _; b_reg = _; b_mret = _;
    b_ctx = _; b_kids = kids } = b
  in
  Sh (map shape_of_block kids)

(** val shapes_stmt : stmt -> shape list **)

let rec shapes_stmt = function
| SIf i -> shapes_if i
| SLoop body ->
  (Sh
    (let rec go = function
     | [] -> []
     | s' :: l' -> app (shapes_stmt s') (go l')
     in go body)) :: []
| _ -> []

(** val shapes_if : ifstmt -> shape list **)

and shapes_if = function
| IfS (_, body, els, elif) ->
  (Sh
    (shapes_body body)) :: (match els with
                            | Some eb -> (Sh (shapes_body eb)) :: []
                            | None ->
                              (match elif with
                               | Some i' -> shapes_if i'
                               | None -> []))

(** val shapes_body : ifbody -> shape list **)

and shapes_body = function
| IBIf ss ->
  let rec go = function
  | [] -> []
  | s' :: l' -> app (shapes_stmt s') (go l')
  in go ss
| IBLoop ss ->
  let rec go = function
  | [] -> []
  | s' :: l' -> app (shapes_stmt s') (go l')
  in go ss

(** val shape_of_stmts : stmt list -> shape list **)

let shape_of_stmts ss =
  flat_map shapes_stmt ss

(** val shape_eqb : shape -> shape -> bool **)

let rec shape_eqb a b =
  let Sh ka = a in
  let Sh kb = b in
  let rec go la lb =
    match la with
    | [] -> (match lb with
             | [] -> true
             | _ :: _ -> false)
    | x :: la' ->
      (match lb with
       | [] -> false
       | y :: lb' -> (&&) (shape_eqb x y) (go la' lb'))
  in go ka kb

(** val chk_C18_shape : program -> output -> bool **)

let chk_C18_shape p o =
  list_eqb shape_eqb (map shape_of_block o.o_fns)
    (map (fun f -> Sh (shape_of_stmts f.fn_body)) (functions_of p))

(** val chk_C18 : program -> output -> bool **)

let chk_C18 p o =
  (&&) (chk_C18_sub o) (chk_C18_shape p o)

(** val is_call_or_field : instr -> bool **)

let is_call_or_field = function
| IExprStruct (_, _, _) -> true
| ICall (_, _, _) -> true
| _ -> false

type seen = (n * bool) list

(** val written : n -> seen -> bool **)

let rec written n0 = function
| [] -> false
| p :: s' -> let (m0, _) = p in (||) (N.eqb n0 m0) (written n0 s')

(** val written_by_f7 : n -> seen -> bool **)

let rec written_by_f7 n0 = function
| [] -> false
| p :: s' ->
  let (m0, b) = p in (||) ((&&) (N.eqb n0 m0) b) (written_by_f7 n0 s')

(** val reg_ok : bool -> seen -> n -> bool **)

let reg_ok quirk s n0 =
  (||) (written n0 s)
    ((&&) ((&&) quirk (negb (N.eqb n0 N0)))
      (written_by_f7 (N.sub n0 (Npos XH)) s))

(** val scan : bool -> seen -> instr list -> bool **)

let rec scan quirk s = function
| [] -> true
| i :: c' ->
  (&&) (forallb (reg_ok quirk s) (use_regs i))
    (scan quirk
      (match def_reg i with
       | Some r -> (r, (is_call_or_field i)) :: s
       | None -> s) c')

(** val chk_C08_root : bool -> block -> bool **)

let chk_C08_root quirk b =
  scan quirk [] b.b_ctx

(** val chk_C08 : bool -> output -> bool **)

let chk_C08 quirk o =
  forallb (chk_C08_root quirk) o.o_fns

(** val f7_reads : seen -> instr list -> nat **)

let rec f7_reads s = function
| [] -> O
| i :: c' ->
  add (length (filter (fun n0 -> negb (written n0 s)) (use_regs i)))
    (f7_reads
      (match def_reg i with
       | Some r -> (r, (is_call_or_field i)) :: s
       | None -> s) c')

(** val f7_count : output -> nat **)

let f7_count o =
  fold_right (fun b n0 -> add (f7_reads [] b.b_ctx) n0) O o.o_fns

type viol = { vi_kind : err_kind; vi_val : string option; vi_loc : loc }

type 'a outcome0 =
| Pass of 'a
| Fail of viol
| Stuck

(** val andthen : 'a1 outcome0 -> ('a1 -> 'a2 outcome0) -> 'a2 outcome0 **)

let andthen m0 k =
  match m0 with
  | Pass a -> k a
  | Fail v -> Fail v
  | Stuck -> Stuck

(** val require :
    bool -> err_kind -> string option -> loc -> unit outcome0 **)

let require ok k v l =
  if ok then Pass () else Fail { vi_kind = k; vi_val = v; vi_loc = l }

(** val at_1_0 : loc **)

let at_1_0 =
  ((Npos XH), N0)

(** val at_1_1 : loc **)

let at_1_1 =
  ((Npos XH), (Npos XH))

type tables = { tb_types : (string * sem_ty) list;
                tb_consts : (string * sem_ty) list;
                tb_funcs : (string * (sem_ty list * sem_ty)) list }

type scope = (string * (sem_ty * bool)) list

type scopes = scope list

(** val lookup_scopes : string -> scopes -> (sem_ty * bool) option **)

let rec lookup_scopes x = function
| [] -> None
| s :: g' ->
  (match alookup x s with
   | Some b -> Some b
   | None -> lookup_scopes x g')

(** val declare : string -> sem_ty -> bool -> scopes -> scopes **)

let declare x t mut = function
| [] -> []
| s :: g' -> (ainsert x (t, mut) s) :: g'

(** val type_known : tables -> sem_ty -> bool **)

let type_known t t0 =
  (||) (is_prim t0) (amem (type_name t0) t.tb_types)

(** val is_some0 : 'a1 option -> bool **)

let is_some0 = function
| Some _ -> true
| None -> false

(** val check_args :
    bool -> (expr -> sem_ty outcome0) -> ident -> sem_ty list -> expr list ->
    unit outcome0 **)

let rec check_args enforced e callee params = function
| [] ->
  (match params with
   | [] -> Pass ()
   | _ :: _ ->
     if enforced
     then Pass ()
     else Fail { vi_kind = EFunctionParameterTypeWrong; vi_val = None;
            vi_loc = (iloc callee) })
| a :: args' ->
  (match params with
   | [] ->
     andthen (e a) (fun t -> Fail { vi_kind = EFunctionParameterTypeWrong;
       vi_val = (Some (type_name t)); vi_loc = (iloc callee) })
   | pt :: params' ->
     andthen (e a) (fun t ->
       andthen
         (require (sem_ty_eqb pt t) EFunctionParameterTypeWrong (Some
           (type_name t)) (iloc callee)) (fun _ ->
         check_args enforced e callee params' args')))

(** val check_call :
    bool -> tables -> (expr -> sem_ty outcome0) -> ident -> expr list ->
    sem_ty outcome0 **)

let check_call enforced t e f args =
  match alookup f.iname t.tb_funcs with
  | Some p ->
    let (params, result) = p in
    andthen (check_args enforced e f params args) (fun _ -> Pass result)
  | None ->
    Fail { vi_kind = EFunctionNotFound; vi_val = (Some f.iname); vi_loc =
      (iloc f) }

(** val check_name : tables -> scopes -> ident -> sem_ty outcome0 **)

let check_name t g x =
  match lookup_scopes x.iname g with
  | Some p -> let (t0, _) = p in Pass t0
  | None ->
    (match alookup x.iname t.tb_consts with
     | Some t0 -> Pass t0
     | None ->
       Fail { vi_kind = EValueNotFound; vi_val = (Some x.iname); vi_loc =
         (iloc x) })

(** val check_field :
    tables -> scopes -> ident -> ident -> sem_ty outcome0 **)

let check_field t g x a =
  let bad = fun k -> Fail { vi_kind = k; vi_val = (Some x.iname); vi_loc =
    (iloc x) }
  in
  (match lookup_scopes x.iname g with
   | Some p ->
     let (t0, _) = p in
     (match t0 with
      | SStruct (_, attrs) ->
        (match alookup (type_name t0) t.tb_types with
         | Some declared0 ->
           if negb (sem_ty_eqb t0 declared0)
           then bad EWrongExpressionType
           else (match attr_lookup a.iname attrs with
                 | Some p0 -> let (_, ta) = p0 in Pass ta
                 | None -> bad EValueNotStructField)
         | None -> bad ETypeNotFound)
      | _ -> bad EValueNotStruct)
   | None -> bad EValueNotFound)

(** val check_operand :
    bool -> tables -> scopes -> (expr -> sem_ty outcome0) -> expr_val ->
    sem_ty outcome0 **)

let check_operand enforced t g e = function
| EVName x -> check_name t g x
| EVPrim p -> Pass (SPrim p.pv_ty)
| EVCall (f, args) -> check_call enforced t e f args
| EVField (x, a) -> check_field t g x a
| EVSub e0 -> e e0
| EVExt (t0, _) -> Pass (sem_of_ty t0)

(** val check_links :
    bool -> tables -> scopes -> (expr -> sem_ty outcome0) -> sem_ty ->
    (binop * expr_val) list -> sem_ty outcome0 **)

let rec check_links enforced t g e left = function
| [] -> Pass left
| p :: rest' ->
  let (_, v) = p in
  andthen (check_operand enforced t g e v) (fun t0 ->
    andthen
      (require (sem_ty_eqb left t0) EWrongExpressionType (Some
        (type_name left)) at_1_0) (fun _ ->
      check_links enforced t g e t0 rest'))

(** val check_expr_step :
    bool -> tables -> scopes -> (expr -> sem_ty outcome0) -> expr -> sem_ty
    outcome0 **)

let check_expr_step enforced t g e e0 =
  let Expr (v, rest) = fold_priority e0 in
  andthen (check_operand enforced t g e v) (fun t0 ->
    check_links enforced t g e t0 rest)

(** val check_expr :
    bool -> tables -> scopes -> nat -> expr -> sem_ty outcome0 **)

let rec check_expr enforced t g fuel e =
  match fuel with
  | O -> Stuck
  | S f -> check_expr_step enforced t g (check_expr enforced t g f) e

(** val ex : bool -> tables -> nat -> scopes -> expr -> sem_ty outcome0 **)

let ex enforced t fuel g e =
  check_expr enforced t g fuel e

(** val check_lcond :
    bool -> tables -> nat -> scopes -> lcond -> unit outcome0 **)

let rec check_lcond enforced t fuel g = function
| LC (l, _, r, next) ->
  andthen (ex enforced t fuel g l) (fun tl ->
    andthen (ex enforced t fuel g r) (fun tr ->
      andthen
        (require (sem_ty_eqb tl tr) EConditionExpressionWrongType (Some
          (type_name tl)) at_1_0) (fun _ ->
        andthen
          (require (is_prim tl) EConditionExpressionNotSupported (Some
            (type_name tl)) at_1_0) (fun _ ->
          match next with
          | Some p -> let (_, c') = p in check_lcond enforced t fuel g c'
          | None -> Pass ()))))

(** val check_cond :
    bool -> tables -> nat -> scopes -> cond -> unit outcome0 **)

let check_cond enforced t fuel g = function
| CSingle e -> andthen (ex enforced t fuel g e) (fun _ -> Pass ())
| CLogic l -> check_lcond enforced t fuel g l

(** val check_let :
    bool -> tables -> nat -> scopes -> ident -> bool -> ast_ty option -> expr
    -> scopes outcome0 **)

let check_let enforced t fuel g x mut ty e =
  andthen (ex enforced t fuel g e) (fun t0 ->
    andthen
      (require
        (match ty with
         | Some a -> sem_ty_eqb t0 (sem_of_ty a)
         | None -> true) EWrongLetType (Some x.iname) (iloc x)) (fun _ ->
      Pass (declare x.iname t0 mut g)))

(** val check_assign :
    bool -> tables -> nat -> scopes -> ident -> expr -> unit outcome0 **)

let check_assign enforced t fuel g x e =
  andthen (ex enforced t fuel g e) (fun t0 ->
    match lookup_scopes x.iname g with
    | Some p ->
      let (tx, mut) = p in
      andthen (require mut EValueIsNotMutable (Some x.iname) (iloc x))
        (fun _ ->
        require (sem_ty_eqb tx t0) EWrongExpressionType (Some x.iname)
          (iloc x))
    | None ->
      Fail { vi_kind = EValueNotFound; vi_val = (Some x.iname); vi_loc =
        (iloc x) })

(** val check_call_stmt :
    bool -> tables -> nat -> scopes -> ident -> expr list -> unit outcome0 **)

let check_call_stmt enforced t fuel g f args =
  andthen (check_call enforced t (ex enforced t fuel g) f args) (fun _ ->
    Pass ())

(** val no_code_after : err_kind option -> unit outcome0 **)

let no_code_after = function
| Some k -> Fail { vi_kind = k; vi_val = None; vi_loc = at_1_1 }
| None -> Pass ()

(** val check_nested_stmt :
    bool -> tables -> nat -> sem_ty -> (scopes -> bool -> ifstmt -> unit
    outcome0) -> (scopes -> stmt list -> unit outcome0) -> bool -> bool ->
    scopes -> stmt -> (scopes * err_kind option) outcome0 **)

let check_nested_stmt enforced t fuel rT iFC lOOP loopy in_loop g = function
| SLet (x, m0, t0, e) ->
  andthen (check_let enforced t fuel g x m0 t0 e) (fun g' -> Pass (g', None))
| SBind (x, e) ->
  andthen (check_assign enforced t fuel g x e) (fun _ -> Pass (g, None))
| SCall (f, args) ->
  andthen (check_call_stmt enforced t fuel g f args) (fun _ -> Pass (g, None))
| SIf i -> andthen (iFC g in_loop i) (fun _ -> Pass (g, None))
| SLoop body -> andthen (lOOP g body) (fun _ -> Pass (g, None))
| SRet e ->
  andthen (ex enforced t fuel g e) (fun t0 ->
    andthen (require (sem_ty_eqb rT t0) EWrongReturnType None at_1_0)
      (fun _ -> Pass (g, (Some EForbiddenCodeAfterReturnDeprecated))))
| SExprStmt _ -> Stuck
| SBreak ->
  if (&&) loopy in_loop
  then Pass (g, (Some EForbiddenCodeAfterBreakDeprecated))
  else Stuck
| SContinue ->
  if (&&) loopy in_loop
  then Pass (g, (Some EForbiddenCodeAfterContinueDeprecated))
  else Stuck

(** val check_block :
    bool -> tables -> nat -> sem_ty -> (scopes -> bool -> ifstmt -> unit
    outcome0) -> (scopes -> stmt list -> unit outcome0) -> bool -> bool ->
    scopes -> err_kind option -> stmt list -> unit outcome0 **)

let rec check_block enforced t fuel rT iFC lOOP loopy in_loop g ended = function
| [] -> Pass ()
| st :: ss' ->
  andthen (no_code_after ended) (fun _ ->
    andthen
      (check_nested_stmt enforced t fuel rT iFC lOOP loopy in_loop g st)
      (fun r ->
      check_block enforced t fuel rT iFC lOOP loopy in_loop (fst r) (snd r)
        ss'))

(** val check_ifbody :
    bool -> tables -> nat -> sem_ty -> (scopes -> bool -> ifstmt -> unit
    outcome0) -> (scopes -> stmt list -> unit outcome0) -> scopes -> bool ->
    ifbody -> unit outcome0 **)

let check_ifbody enforced t fuel rT iFC lOOP g in_loop = function
| IBIf ss -> check_block enforced t fuel rT iFC lOOP false in_loop g None ss
| IBLoop ss ->
  if in_loop
  then check_block enforced t fuel rT iFC lOOP true in_loop g None ss
  else Stuck

(** val check_if_step :
    bool -> tables -> nat -> sem_ty -> (scopes -> bool -> ifstmt -> unit
    outcome0) -> (scopes -> stmt list -> unit outcome0) -> scopes -> bool ->
    ifstmt -> unit outcome0 **)

let check_if_step enforced t fuel rT iFC lOOP g in_loop = function
| IfS (c, body, els, elif) ->
  andthen
    (require (negb ((&&) (is_some0 els) (is_some0 elif))) EIfElseDuplicated
      (Some (String ((Ascii (true, false, false, true, false, true, true,
      false)), (String ((Ascii (false, true, true, false, false, true, true,
      false)), (String ((Ascii (true, false, true, true, false, true, false,
      false)), (String ((Ascii (true, true, false, false, false, true, true,
      false)), (String ((Ascii (true, true, true, true, false, true, true,
      false)), (String ((Ascii (false, true, true, true, false, true, true,
      false)), (String ((Ascii (false, false, true, false, false, true, true,
      false)), (String ((Ascii (true, false, false, true, false, true, true,
      false)), (String ((Ascii (false, false, true, false, true, true, true,
      false)), (String ((Ascii (true, false, false, true, false, true, true,
      false)), (String ((Ascii (true, true, true, true, false, true, true,
      false)), (String ((Ascii (false, true, true, true, false, true, true,
      false)), EmptyString))))))))))))))))))))))))) at_1_0) (fun _ ->
    andthen (check_cond enforced t fuel ([] :: g) c) (fun _ ->
      andthen
        (check_ifbody enforced t fuel rT iFC lOOP ([] :: g) in_loop body)
        (fun _ ->
        match els with
        | Some eb ->
          check_ifbody enforced t fuel rT iFC lOOP ([] :: g) in_loop eb
        | None ->
          (match elif with
           | Some ei -> iFC g in_loop ei
           | None -> Pass ()))))

(** val check_loop_step :
    bool -> tables -> nat -> sem_ty -> (scopes -> bool -> ifstmt -> unit
    outcome0) -> (scopes -> stmt list -> unit outcome0) -> scopes -> stmt
    list -> unit outcome0 **)

let check_loop_step enforced t fuel rT iFC lOOP g body =
  check_block enforced t fuel rT iFC lOOP true true ([] :: g) None body

(** val check_if :
    bool -> tables -> nat -> sem_ty -> nat -> scopes -> bool -> ifstmt ->
    unit outcome0 **)

let check_if enforced t fuel rT =
  let rec check_if0 n0 g in_loop i =
    match n0 with
    | O -> Stuck
    | S n' ->
      check_if_step enforced t fuel rT (check_if0 n') (check_loop0 n') g
        in_loop i
  and check_loop0 n0 g body =
    match n0 with
    | O -> Stuck
    | S n' ->
      check_loop_step enforced t fuel rT (check_if0 n') (check_loop0 n') g
        body
  in check_if0

(** val check_loop :
    bool -> tables -> nat -> sem_ty -> nat -> scopes -> stmt list -> unit
    outcome0 **)

let check_loop enforced t fuel rT =
  let rec check_if0 n0 g in_loop i =
    match n0 with
    | O -> Stuck
    | S n' ->
      check_if_step enforced t fuel rT (check_if0 n') (check_loop0 n') g
        in_loop i
  and check_loop0 n0 g body =
    match n0 with
    | O -> Stuck
    | S n' ->
      check_loop_step enforced t fuel rT (check_if0 n') (check_loop0 n') g
        body
  in check_loop0

(** val check_fn_stmt :
    bool -> tables -> nat -> sem_ty -> scopes -> bool -> stmt ->
    (scopes * bool) outcome0 **)

let check_fn_stmt enforced t fuel rT g returned = function
| SLet (x, m0, t0, e) ->
  andthen (check_let enforced t fuel g x m0 t0 e) (fun g' -> Pass (g',
    returned))
| SBind (x, e) ->
  andthen (check_assign enforced t fuel g x e) (fun _ -> Pass (g, returned))
| SCall (f, args) ->
  andthen (check_call_stmt enforced t fuel g f args) (fun _ -> Pass (g,
    returned))
| SIf i ->
  andthen (check_if enforced t fuel rT fuel g false i) (fun _ -> Pass (g,
    returned))
| SLoop body ->
  andthen (check_loop enforced t fuel rT fuel g body) (fun _ -> Pass (g,
    returned))
| SRet e ->
  andthen (ex enforced t fuel g e) (fun t0 ->
    andthen (require (negb returned) EReturnAlreadyCalled None at_1_0)
      (fun _ ->
      andthen (require (type_known t t0) ETypeNotFound None at_1_0) (fun _ ->
        andthen (require (sem_ty_eqb rT t0) EWrongReturnType None at_1_0)
          (fun _ -> Pass (g, true)))))
| SExprStmt e ->
  andthen (ex enforced t fuel g e) (fun t0 ->
    andthen (require (negb returned) EReturnAlreadyCalled None at_1_0)
      (fun _ ->
      andthen (require (type_known t t0) ETypeNotFound None at_1_0) (fun _ ->
        andthen (require (sem_ty_eqb rT t0) EWrongReturnType None at_1_0)
          (fun _ -> Pass (g, true)))))
| _ -> Stuck

(** val check_fn_stmts :
    bool -> tables -> nat -> sem_ty -> scopes -> bool -> stmt list -> bool
    outcome0 **)

let rec check_fn_stmts enforced t fuel rT g returned = function
| [] -> Pass returned
| st :: ss' ->
  andthen
    (require (negb returned) EForbiddenCodeAfterReturnDeprecated None at_1_1)
    (fun _ ->
    andthen (check_fn_stmt enforced t fuel rT g returned st) (fun r ->
      check_fn_stmts enforced t fuel rT (fst r) (snd r) ss'))

(** val declare_params : scope -> (ident * ast_ty) list -> scope outcome0 **)

let rec declare_params s = function
| [] -> Pass s
| p :: ps' ->
  let (x, t) = p in
  andthen
    (require (negb (amem x.iname s)) EFunctionArgumentNameDuplicated (Some
      x.iname) at_1_1) (fun _ ->
    declare_params (ainsert x.iname ((sem_of_ty t), false) s) ps')

(** val fuel_of_fn : fn_decl -> nat **)

let fuel_of_fn f =
  S (S (size_fn f))

(** val check_fn_body : bool -> tables -> fn_decl -> unit outcome0 **)

let check_fn_body enforced t f =
  andthen (declare_params [] f.fn_params) (fun params ->
    andthen
      (check_fn_stmts enforced t (fuel_of_fn f) (sem_of_ty f.fn_result)
        (params :: []) false f.fn_body) (fun returned ->
      require returned EReturnNotFound (Some EmptyString) (iloc f.fn_name)))

(** val check_bodies : bool -> tables -> fn_decl list -> unit outcome0 **)

let rec check_bodies enforced t = function
| [] -> Pass ()
| f :: fs' ->
  andthen (check_fn_body enforced t f) (fun _ -> check_bodies enforced t fs')

(** val check_structs :
    (string * sem_ty) list -> program -> (string * sem_ty) list outcome0 **)

let rec check_structs types = function
| [] -> Pass types
| t :: p' ->
  (match t with
   | TStructDecl (name, attrs) ->
     andthen
       (require (negb (amem name.iname types)) ETypeAlreadyExist (Some
         name.iname) (iloc name)) (fun _ ->
       check_structs
         (app types ((name.iname, (struct_of_decl name attrs)) :: [])) p')
   | _ -> check_structs types p')

(** val consts_mentioned : cval list -> ident list **)

let rec consts_mentioned = function
| [] -> []
| c0 :: l' ->
  (match c0 with
   | CConst c -> c :: (consts_mentioned l')
   | CVal _ -> consts_mentioned l')

(** val consts_before_literal : cval list -> ident list **)

let rec consts_before_literal = function
| [] -> []
| c0 :: l' ->
  (match c0 with
   | CConst c -> c :: (consts_before_literal l')
   | CVal _ -> [])

(** val r5_checked : bool -> cexpr -> ident list **)

let r5_checked enforced v =
  if enforced
  then consts_before_literal (map snd v.ce_rest)
  else consts_mentioned (v.ce_head :: (map snd v.ce_rest))

(** val all_declared :
    (string * sem_ty) list -> ident list -> unit outcome0 **)

let rec all_declared consts = function
| [] -> Pass ()
| c :: l' ->
  andthen
    (require (amem c.iname consts) EConstantNotFound (Some c.iname) (iloc c))
    (fun _ -> all_declared consts l')

(** val check_const_decl :
    bool -> tables -> ident -> ast_ty -> cexpr -> tables outcome0 **)

let check_const_decl enforced t name ty v =
  andthen
    (require (negb (amem name.iname t.tb_consts)) EConstantAlreadyExist (Some
      name.iname) (iloc name)) (fun _ ->
    andthen (all_declared t.tb_consts (r5_checked enforced v)) (fun _ ->
      andthen
        (require (type_known t (sem_of_ty ty)) ETypeNotFound (Some
          name.iname) (iloc name)) (fun _ -> Pass { tb_types = t.tb_types;
        tb_consts = (app t.tb_consts ((name.iname, (sem_of_ty ty)) :: []));
        tb_funcs = t.tb_funcs })))

(** val check_param_types :
    tables -> loc -> (ident * ast_ty) list -> unit outcome0 **)

let rec check_param_types t floc = function
| [] -> Pass ()
| p :: ps' ->
  let (x, t0) = p in
  andthen
    (require (type_known t (sem_of_ty t0)) ETypeNotFound (Some x.iname) floc)
    (fun _ -> check_param_types t floc ps')

(** val check_fn_decl : tables -> fn_decl -> tables outcome0 **)

let check_fn_decl t f =
  let name = f.fn_name in
  andthen
    (require (negb (amem name.iname t.tb_funcs)) EFunctionAlreadyExist (Some
      name.iname) (iloc name)) (fun _ ->
    andthen
      (require (type_known t (sem_of_ty f.fn_result)) ETypeNotFound (Some
        name.iname) (iloc name)) (fun _ ->
      andthen (check_param_types t (iloc name) f.fn_params) (fun _ -> Pass
        { tb_types = t.tb_types; tb_consts = t.tb_consts; tb_funcs =
        (app t.tb_funcs ((name.iname,
          ((map (fun p -> sem_of_ty (snd p)) f.fn_params),
          (sem_of_ty f.fn_result))) :: [])) })))

(** val check_decls : bool -> tables -> program -> tables outcome0 **)

let rec check_decls enforced t = function
| [] -> Pass t
| t0 :: p' ->
  (match t0 with
   | TConst (name, ty, v) ->
     andthen (check_const_decl enforced t name ty v) (fun t' ->
       check_decls enforced t' p')
   | TFn f ->
     andthen (check_fn_decl t f) (fun t' -> check_decls enforced t' p')
   | _ -> check_decls enforced t p')

(** val fn_decls : program -> fn_decl list **)

let rec fn_decls = function
| [] -> []
| t :: p' -> (match t with
              | TFn f -> f :: (fn_decls p')
              | _ -> fn_decls p')

(** val check_program : bool -> program -> unit outcome0 **)

let check_program enforced p =
  andthen (check_structs [] p) (fun types ->
    andthen
      (check_decls enforced { tb_types = types; tb_consts = []; tb_funcs =
        [] } p) (fun t -> check_bodies enforced t (fn_decls p)))

(** val stuck_viol : viol **)

let stuck_viol =
  { vi_kind = ECommon; vi_val = None; vi_loc = (N0, N0) }

(** val first_violation : bool -> program -> viol option **)

let first_violation enforced p =
  match check_program enforced p with
  | Pass _ -> None
  | Fail v -> Some v
  | Stuck -> Some stuck_viol

(** val wf_b : program -> bool **)

let wf_b p =
  match first_violation false p with
  | Some _ -> false
  | None -> true

(** val accepted_spec_b : program -> bool **)

let accepted_spec_b p =
  match first_violation true p with
  | Some _ -> false
  | None -> true

(** val err_kind_eqb : err_kind -> err_kind -> bool **)

let err_kind_eqb a b =
  eqb1 (err_kind_name a) (err_kind_name b)

(** val loc_eqb : loc -> loc -> bool **)

let loc_eqb a b =
  (&&) (N.eqb (fst a) (fst b)) (N.eqb (snd a) (snd b))

(** val val_agrees : string option -> string option -> bool **)

let val_agrees spec reported =
  match spec with
  | Some s -> (match reported with
               | Some s' -> eqb1 s s'
               | None -> false)
  | None -> true

(** val viol_agrees : viol -> err -> bool **)

let viol_agrees v e =
  (&&) ((&&) (err_kind_eqb v.vi_kind e.e_kind) (loc_eqb v.vi_loc e.e_loc))
    (val_agrees v.vi_val e.e_val)

(** val no_errors : output -> bool **)

let no_errors o =
  match o.o_errors with
  | [] -> true
  | _ :: _ -> false

(** val chk_C14 : program -> output -> bool **)

let chk_C14 p o =
  match first_violation true p with
  | Some v ->
    (match hd_error o.o_errors with
     | Some e -> viol_agrees v e
     | None -> false)
  | None -> (match hd_error o.o_errors with
             | Some _ -> false
             | None -> true)

(** val chk_C02 : program -> output -> bool **)

let chk_C02 p o =
  implb (wf_b p) (no_errors o)

(** val chk_C01 : program -> output -> bool **)

let chk_C01 p o =
  implb (no_errors o) (wf_b p)

(** val chk_C01_quirk : program -> output -> bool **)

let chk_C01_quirk p o =
  implb (no_errors o) (accepted_spec_b p)

type ev =
| EDecl of nat
| EUse of nat
| EUseField of nat * string
| EUseConst of string
| EAssign of nat
| ECall of string
| EExt of n
| ERet

(** val ev_eqb : ev -> ev -> bool **)

let ev_eqb a b =
  match a with
  | EDecl x -> (match b with
                | EDecl y -> Nat.eqb x y
                | _ -> false)
  | EUse x -> (match b with
               | EUse y -> Nat.eqb x y
               | _ -> false)
  | EUseField (x, s) ->
    (match b with
     | EUseField (y, t) -> (&&) (Nat.eqb x y) (eqb1 s t)
     | _ -> false)
  | EUseConst s -> (match b with
                    | EUseConst t -> eqb1 s t
                    | _ -> false)
  | EAssign x -> (match b with
                  | EAssign y -> Nat.eqb x y
                  | _ -> false)
  | ECall s -> (match b with
                | ECall t -> eqb1 s t
                | _ -> false)
  | EExt x -> (match b with
               | EExt y -> N.eqb x y
               | _ -> false)
  | ERet -> (match b with
             | ERet -> true
             | _ -> false)

(** val evs_eqb : ev list -> ev list -> bool **)

let rec evs_eqb l l' =
  match l with
  | [] -> (match l' with
           | [] -> true
           | _ :: _ -> false)
  | a :: r ->
    (match l' with
     | [] -> false
     | b :: r' -> (&&) (ev_eqb a b) (evs_eqb r r'))

type rscope = (string * nat) list

type rscopes = rscope list

(** val scope_find : string -> rscope -> nat option **)

let rec scope_find x = function
| [] -> None
| p :: s' -> let (y, d) = p in if eqb1 x y then Some d else scope_find x s'

(** val resolve : string -> rscopes -> nat option **)

let rec resolve x = function
| [] -> None
| s :: g' ->
  (match scope_find x s with
   | Some d -> Some d
   | None -> resolve x g')

(** val declare_in : string -> nat -> rscopes -> rscopes **)

let declare_in x d = function
| [] -> ((x, d) :: []) :: []
| s :: g' -> ((x, d) :: s) :: g'

(** val oapp : ev list option -> ev list option -> ev list option **)

let oapp a b =
  match a with
  | Some x -> (match b with
               | Some y -> Some (app x y)
               | None -> None)
  | None -> None

(** val ev_expr : rscopes -> expr -> ev list option **)

let rec ev_expr g = function
| Expr (v, rest) ->
  oapp (ev_val g v)
    (let rec go = function
     | [] -> Some []
     | p :: l' -> let (_, v') = p in oapp (ev_val g v') (go l')
     in go rest)

(** val ev_val : rscopes -> expr_val -> ev list option **)

and ev_val g = function
| EVName x ->
  (match resolve x.iname g with
   | Some d -> Some ((EUse d) :: [])
   | None -> Some ((EUseConst x.iname) :: []))
| EVPrim _ -> Some []
| EVCall (f, args) ->
  oapp
    (let rec go = function
     | [] -> Some []
     | a :: l' -> oapp (ev_expr g a) (go l')
     in go args) (Some ((ECall f.iname) :: []))
| EVField (x, a) ->
  (match resolve x.iname g with
   | Some d -> Some ((EUseField (d, a.iname)) :: [])
   | None -> None)
| EVSub e -> ev_expr g e
| EVExt (_, tag) -> Some ((EExt tag) :: [])

(** val ev_exprs : rscopes -> expr list -> ev list option **)

let rec ev_exprs g = function
| [] -> Some []
| a :: l' -> oapp (ev_expr g a) (ev_exprs g l')

(** val ev_lcond : rscopes -> lcond -> ev list option **)

let rec ev_lcond g = function
| LC (l, _, r, next) ->
  oapp (ev_expr g l)
    (oapp (ev_expr g r)
      (match next with
       | Some p -> let (_, c') = p in ev_lcond g c'
       | None -> Some []))

(** val ev_cond : rscopes -> cond -> ev list option **)

let ev_cond g = function
| CSingle e -> ev_expr g e
| CLogic l -> ev_lcond g l

(** val ev_stmt :
    rscopes -> nat -> stmt -> ((rscopes * nat) * ev list) option **)

let rec ev_stmt g n0 = function
| SLet (x, _, _, e) ->
  (match ev_expr g e with
   | Some es ->
     Some (((declare_in x.iname n0 g), (S n0)), (app es ((EDecl n0) :: [])))
   | None -> None)
| SBind (x, e) ->
  (match ev_expr g e with
   | Some es ->
     (match resolve x.iname g with
      | Some d -> Some ((g, n0), (app es ((EAssign d) :: [])))
      | None -> None)
   | None -> None)
| SCall (f, args) ->
  (match ev_exprs g args with
   | Some es -> Some ((g, n0), (app es ((ECall f.iname) :: [])))
   | None -> None)
| SIf i ->
  (match ev_if g n0 i with
   | Some p -> let (n', es) = p in Some ((g, n'), es)
   | None -> None)
| SLoop body ->
  (match let rec go g0 n1 = function
         | [] -> Some (n1, [])
         | s' :: l' ->
           (match ev_stmt g0 n1 s' with
            | Some p ->
              let (p0, es) = p in
              let (g', n') = p0 in
              (match go g' n' l' with
               | Some p1 -> let (n'', es') = p1 in Some (n'', (app es es'))
               | None -> None)
            | None -> None)
         in go ([] :: g) n0 body with
   | Some p -> let (n', es) = p in Some ((g, n'), es)
   | None -> None)
| SRet e ->
  (match ev_expr g e with
   | Some es -> Some ((g, n0), (app es (ERet :: [])))
   | None -> None)
| SExprStmt e ->
  (match ev_expr g e with
   | Some es -> Some ((g, n0), (app es (ERet :: [])))
   | None -> None)
| _ -> Some ((g, n0), [])

(** val ev_if : rscopes -> nat -> ifstmt -> (nat * ev list) option **)

and ev_if g n0 = function
| IfS (c, body, els, elif) ->
  (match ev_cond ([] :: g) c with
   | Some ec ->
     (match ev_ifbody ([] :: g) n0 body with
      | Some p ->
        let (n1, eb) = p in
        (match els with
         | Some b ->
           (match ev_ifbody ([] :: g) n1 b with
            | Some p0 -> let (n2, ee) = p0 in Some (n2, (app ec (app eb ee)))
            | None -> None)
         | None ->
           (match elif with
            | Some i' ->
              (match ev_if g n1 i' with
               | Some p0 ->
                 let (n2, ee) = p0 in Some (n2, (app ec (app eb ee)))
               | None -> None)
            | None -> Some (n1, (app ec eb))))
      | None -> None)
   | None -> None)

(** val ev_ifbody : rscopes -> nat -> ifbody -> (nat * ev list) option **)

and ev_ifbody g n0 = function
| IBIf ss ->
  let rec go g0 n1 = function
  | [] -> Some (n1, [])
  | s' :: l' ->
    (match ev_stmt g0 n1 s' with
     | Some p ->
       let (p0, es) = p in
       let (g', n') = p0 in
       (match go g' n' l' with
        | Some p1 -> let (n'', es') = p1 in Some (n'', (app es es'))
        | None -> None)
     | None -> None)
  in go g n0 ss
| IBLoop ss ->
  let rec go g0 n1 = function
  | [] -> Some (n1, [])
  | s' :: l' ->
    (match ev_stmt g0 n1 s' with
     | Some p ->
       let (p0, es) = p in
       let (g', n') = p0 in
       (match go g' n' l' with
        | Some p1 -> let (n'', es') = p1 in Some (n'', (app es es'))
        | None -> None)
     | None -> None)
  in go g n0 ss

(** val ev_stmts : rscopes -> nat -> stmt list -> (nat * ev list) option **)

let rec ev_stmts g n0 = function
| [] -> Some (n0, [])
| s :: l' ->
  (match ev_stmt g n0 s with
   | Some p ->
     let (p0, es) = p in
     let (g', n') = p0 in
     (match ev_stmts g' n' l' with
      | Some p1 -> let (n'', es') = p1 in Some (n'', (app es es'))
      | None -> None)
   | None -> None)

(** val param_scope : nat -> (ident * ast_ty) list -> rscope -> rscope **)

let rec param_scope k ps s =
  match ps with
  | [] -> s
  | p :: ps' -> let (x, _) = p in param_scope (S k) ps' ((x.iname, k) :: s)

(** val src_events : fn_decl -> ev list option **)

let src_events f =
  match ev_stmts ((param_scope O f.fn_params []) :: []) (length f.fn_params)
          f.fn_body with
  | Some p -> let (_, es) = p in Some es
  | None -> None

type nmap = (string * nat) list

(** val nmap_find : string -> nmap -> nat option **)

let rec nmap_find x = function
| [] -> None
| p :: m' -> let (y, d) = p in if eqb1 x y then Some d else nmap_find x m'

(** val attr_name_at : n -> ((string * n) * sem_ty) list -> string option **)

let rec attr_name_at idx = function
| [] -> None
| p :: l' ->
  let (p0, _) = p in
  let (x, i) = p0 in if N.eqb idx i then Some x else attr_name_at idx l'

(** val field_name : sem_ty -> n -> string option **)

let field_name t idx =
  match t with
  | SStruct (_, attrs) -> attr_name_at idx attrs
  | _ -> None

(** val stack_scan :
    instr list -> nmap -> nat -> nat -> bool -> (nat * ev list) option **)

let rec stack_scan c m0 k na lets =
  let continue_with = fun e r ->
    match r with
    | Some p -> let (na', es) = p in Some (na', (app e es))
    | None -> None
  in
  (match c with
   | [] -> Some (na, [])
   | i :: c' ->
     (match i with
      | IExprValue (v, _) ->
        (match nmap_find v.v_inner m0 with
         | Some d ->
           continue_with ((EUse d) :: []) (stack_scan c' m0 k na lets)
         | None -> None)
      | IExprConst (cst, _) ->
        continue_with ((EUseConst cst.c_name) :: [])
          (stack_scan c' m0 k na lets)
      | IExprStruct (v, idx, _) ->
        (match nmap_find v.v_inner m0 with
         | Some d ->
           (match field_name v.v_ty idx with
            | Some a ->
              continue_with ((EUseField (d, a)) :: [])
                (stack_scan c' m0 k na lets)
            | None -> None)
         | None -> None)
      | ICall (f, _, _) ->
        continue_with ((ECall f.f_name) :: []) (stack_scan c' m0 k na lets)
      | ILet (v, _) ->
        (match nmap_find v.v_inner m0 with
         | Some _ -> None
         | None ->
           continue_with ((EDecl k) :: [])
             (stack_scan c' ((v.v_inner, k) :: m0) (S k) na true))
      | IBind (v, _) ->
        (match nmap_find v.v_inner m0 with
         | Some d ->
           continue_with ((EAssign d) :: []) (stack_scan c' m0 k na lets)
         | None -> None)
      | IFnRet _ -> continue_with (ERet :: []) (stack_scan c' m0 k na lets)
      | IFnRetLabel _ ->
        continue_with (ERet :: []) (stack_scan c' m0 k na lets)
      | IJumpFnRet _ ->
        continue_with (ERet :: []) (stack_scan c' m0 k na lets)
      | IFnArg (v, _, _) ->
        if lets
        then None
        else (match nmap_find v.v_inner m0 with
              | Some _ -> None
              | None -> stack_scan c' ((v.v_inner, k) :: m0) (S k) (S na) lets)
      | IExt (tag, _) ->
        continue_with ((EExt tag) :: []) (stack_scan c' m0 k na lets)
      | _ -> stack_scan c' m0 k na lets))

(** val stack_events : instr list -> (nat * ev list) option **)

let stack_events c =
  stack_scan c [] O O false

(** val chk_C03_fn : fn_decl -> block -> bool **)

let chk_C03_fn f root =
  match src_events f with
  | Some es ->
    (match stack_events root.b_ctx with
     | Some p ->
       let (na, et) = p in
       (&&) (Nat.eqb na (length f.fn_params)) (evs_eqb es et)
     | None -> false)
  | None -> false

(** val chk_C03_fns : fn_decl list -> block list -> bool **)

let rec chk_C03_fns fs roots =
  match fs with
  | [] -> (match roots with
           | [] -> true
           | _ :: _ -> false)
  | f :: fs' ->
    (match roots with
     | [] -> false
     | r :: roots' -> (&&) (chk_C03_fn f r) (chk_C03_fns fs' roots'))

(** val chk_C03 : program -> output -> bool **)

let chk_C03 p o =
  match o.o_errors with
  | [] -> chk_C03_fns (functions_of p) o.o_fns
  | _ :: _ -> true

type rkind =
| KTy of sem_ty
| KCond
| KUnk

type regmap = (n * (rkind * bool)) list

(** val reg_find : n -> regmap -> (rkind * bool) option **)

let rec reg_find n0 = function
| [] -> None
| p :: m' -> let (k, x) = p in if N.eqb n0 k then Some x else reg_find n0 m'

(** val reg_fix : n -> sem_ty -> regmap -> regmap **)

let rec reg_fix n0 t = function
| [] -> []
| p :: m' ->
  let (k, p0) = p in
  let (x, b) = p0 in
  if N.eqb n0 k
  then (k, ((KTy t), b)) :: m'
  else (k, (x, b)) :: (reg_fix n0 t m')

(** val chk_operand : regmap -> eres -> regmap option **)

let chk_operand m0 e =
  match e.r_val with
  | RReg n0 ->
    (match reg_find n0 m0 with
     | Some p ->
       let (r, _) = p in
       (match r with
        | KTy t -> if sem_ty_eqb e.r_ty t then Some m0 else None
        | KCond -> None
        | KUnk -> Some (reg_fix n0 e.r_ty m0))
     | None ->
       if N.eqb n0 N0
       then None
       else (match reg_find (N.sub n0 (Npos XH)) m0 with
             | Some p ->
               let (r, b) = p in
               (match r with
                | KTy t ->
                  if b
                  then if sem_ty_eqb e.r_ty t then Some m0 else None
                  else None
                | _ -> None)
             | None -> None))
  | RPrim p -> if sem_ty_eqb e.r_ty (SPrim p.pv_ty) then Some m0 else None

(** val chk_operands : regmap -> eres list -> regmap option **)

let rec chk_operands m0 = function
| [] -> Some m0
| e :: l' ->
  (match chk_operand m0 e with
   | Some m' -> chk_operands m' l'
   | None -> None)

(** val is_cond_reg : regmap -> n -> bool **)

let is_cond_reg m0 n0 =
  match reg_find n0 m0 with
  | Some p -> let (r, _) = p in (match r with
                                 | KCond -> true
                                 | _ -> false)
  | None -> false

(** val value_eqb0 : value -> value -> bool **)

let value_eqb0 a b =
  (&&) ((&&) (eqb1 a.v_inner b.v_inner) (sem_ty_eqb a.v_ty b.v_ty))
    (eqb a.v_mut b.v_mut)

type valmap = (string * value) list

(** val declared : valmap -> value -> bool **)

let declared vs v =
  match alookup v.v_inner vs with
  | Some d -> value_eqb0 v d
  | None -> false

(** val attr_ty_at : n -> ((string * n) * sem_ty) list -> sem_ty option **)

let rec attr_ty_at idx = function
| [] -> None
| p :: l' ->
  let (p0, t) = p in
  let (_, i) = p0 in if N.eqb idx i then Some t else attr_ty_at idx l'

(** val field_ty : sem_ty -> n -> sem_ty option **)

let field_ty t idx =
  match t with
  | SStruct (_, attrs) -> attr_ty_at idx attrs
  | _ -> None

(** val tys_eqb : sem_ty list -> sem_ty list -> bool **)

let tys_eqb a b =
  list_eqb sem_ty_eqb a b

(** val chk_call : globals -> func_sem -> eres list -> bool **)

let chk_call g f args =
  match alookup f.f_name g.g_funcs with
  | Some fd ->
    (&&)
      ((&&) (func_sem_eqb f fd) (Nat.eqb (length args) (length f.f_params)))
      (tys_eqb (map (fun e -> e.r_ty) args) f.f_params)
  | None -> false

(** val chk_const : globals -> const_sem -> bool **)

let chk_const g c =
  match alookup c.c_name g.g_consts with
  | Some d -> const_sem_eqb c d
  | None -> false

(** val scan_C04 :
    globals -> sem_ty -> instr list -> regmap -> valmap -> (ident * ast_ty)
    list -> bool **)

let rec scan_C04 g rT c m0 vs ps =
  match c with
  | [] -> (match ps with
           | [] -> true
           | _ :: _ -> false)
  | i :: c' ->
    (match i with
     | IExprValue (v, r) ->
       (&&) (declared vs v)
         (scan_C04 g rT c' ((r, ((KTy v.v_ty), false)) :: m0) vs ps)
     | IExprConst (cst, r) ->
       (&&) (chk_const g cst)
         (scan_C04 g rT c' ((r, ((KTy cst.c_ty), false)) :: m0) vs ps)
     | IExprStruct (v, idx, r) ->
       (&&) (declared vs v)
         (match field_ty v.v_ty idx with
          | Some t -> scan_C04 g rT c' ((r, ((KTy t), true)) :: m0) vs ps
          | None -> false)
     | IExprOp (_, l, r, reg) ->
       (match chk_operands m0 (l :: (r :: [])) with
        | Some m' ->
          (&&) (sem_ty_eqb l.r_ty r.r_ty)
            (scan_C04 g rT c' ((reg, ((KTy r.r_ty), false)) :: m') vs ps)
        | None -> false)
     | ICall (f, args, r) ->
       (match chk_operands m0 args with
        | Some m' ->
          (&&) (chk_call g f args)
            (scan_C04 g rT c' ((r, ((KTy f.f_ty), true)) :: m') vs ps)
        | None -> false)
     | ILet (v, e) ->
       (match chk_operand m0 e with
        | Some m' ->
          (&&) (sem_ty_eqb v.v_ty e.r_ty)
            (scan_C04 g rT c' m' ((v.v_inner, v) :: vs) ps)
        | None -> false)
     | IBind (v, e) ->
       (match chk_operand m0 e with
        | Some m' ->
          (&&)
            ((&&) ((&&) (declared vs v) v.v_mut) (sem_ty_eqb v.v_ty e.r_ty))
            (scan_C04 g rT c' m' vs ps)
        | None -> false)
     | IFnRet e ->
       (match chk_operand m0 e with
        | Some m' -> (&&) (sem_ty_eqb e.r_ty rT) (scan_C04 g rT c' m' vs ps)
        | None -> false)
     | IFnRetLabel e ->
       (match chk_operand m0 e with
        | Some m' -> (&&) (sem_ty_eqb e.r_ty rT) (scan_C04 g rT c' m' vs ps)
        | None -> false)
     | IIfCondExpr (e, _, _) ->
       (match chk_operand m0 e with
        | Some m' -> scan_C04 g rT c' m' vs ps
        | None -> false)
     | ICondExpr (l, r, _, reg) ->
       (match chk_operands m0 (l :: (r :: [])) with
        | Some m' ->
          (&&) ((&&) (sem_ty_eqb l.r_ty r.r_ty) (is_prim l.r_ty))
            (scan_C04 g rT c' ((reg, (KCond, false)) :: m') vs ps)
        | None -> false)
     | IJumpFnRet e ->
       (match chk_operand m0 e with
        | Some m' -> (&&) (sem_ty_eqb e.r_ty rT) (scan_C04 g rT c' m' vs ps)
        | None -> false)
     | ILogic (_, lreg, rreg, reg) ->
       (&&) ((&&) (is_cond_reg m0 lreg) (is_cond_reg m0 rreg))
         (scan_C04 g rT c' ((reg, (KCond, false)) :: m0) vs ps)
     | IIfCondLogic (_, _, reg) ->
       (&&) (is_cond_reg m0 reg) (scan_C04 g rT c' m0 vs ps)
     | IFnArg (v, pname, pty) ->
       (match ps with
        | [] -> false
        | p :: ps' ->
          let (x, t) = p in
          (&&)
            ((&&)
              ((&&)
                ((&&) (eqb1 pname x.iname) (sem_ty_eqb pty (sem_of_ty t)))
                (sem_ty_eqb v.v_ty pty)) (negb v.v_mut))
            (scan_C04 g rT c' m0 ((v.v_inner, v) :: vs) ps'))
     | IExt (_, r) -> scan_C04 g rT c' ((r, (KUnk, false)) :: m0) vs ps
     | _ -> scan_C04 g rT c' m0 vs ps)

(** val chk_C04_fn : globals -> fn_decl -> block -> bool **)

let chk_C04_fn g f root =
  scan_C04 g (sem_of_ty f.fn_result) root.b_ctx [] [] f.fn_params

(** val chk_C04_fns : globals -> fn_decl list -> block list -> bool **)

let rec chk_C04_fns g fs roots =
  match fs with
  | [] -> (match roots with
           | [] -> true
           | _ :: _ -> false)
  | f :: fs' ->
    (match roots with
     | [] -> false
     | r :: roots' -> (&&) (chk_C04_fn g f r) (chk_C04_fns g fs' roots'))

(** val chk_C04 : program -> output -> bool **)

let chk_C04 p o =
  match o.o_errors with
  | [] -> chk_C04_fns o.o_globals (functions_of p) o.o_fns
  | _ :: _ -> true

(** val pv_eqb : prim_val -> prim_val -> bool **)

let pv_eqb a b =
  (&&) (prim_ty_eqb a.pv_ty b.pv_ty) (Z.eqb a.pv_bits b.pv_bits)

(** val bop_eqb : binop -> binop -> bool **)

let bop_eqb a b =
  eqb1 (binop_name a) (binop_name b)

(** val cop_eqb : cmpop -> cmpop -> bool **)

let cop_eqb a b =
  eqb1 (cmpop_name a) (cmpop_name b)

(** val lop_eqb : logicop -> logicop -> bool **)

let lop_eqb a b =
  eqb1 (logicop_name a) (logicop_name b)

(** val nthN : 'a1 list -> n -> 'a1 option **)

let rec nthN l n0 =
  match l with
  | [] -> None
  | x :: l' -> if N.eqb n0 N0 then Some x else nthN l' (N.sub n0 (Npos XH))

(** val same_len : 'a1 list -> 'a2 list -> bool **)

let rec same_len a b =
  match a with
  | [] -> (match b with
           | [] -> true
           | _ :: _ -> false)
  | _ :: a' -> (match b with
                | [] -> false
                | _ :: b' -> same_len a' b')

type dt =
| DLit of prim_val
| DRead of string
| DConst of string
| DField of string * n
| DCall of string * dt list
| DExt of n
| DOp of binop * dt * dt
| DCmp of cmpop * dt * dt
| DLogic of logicop * dt * dt
| DUnknown of n

type denv = ((n * dt) * bool) list

(** val env_find : n -> denv -> (dt * bool) option **)

let rec env_find n0 = function
| [] -> None
| p :: env' ->
  let (p0, b) = p in
  let (m0, t) = p0 in if N.eqb n0 m0 then Some (t, b) else env_find n0 env'

(** val reg_tree : denv -> n -> dt **)

let reg_tree env n0 =
  match env_find n0 env with
  | Some p -> let (t, _) = p in t
  | None -> DUnknown n0

(** val operand : denv -> eres -> dt **)

let operand env e =
  match e.r_val with
  | RReg n0 ->
    (match env_find n0 env with
     | Some p -> let (t, _) = p in t
     | None ->
       if N.eqb n0 N0
       then DUnknown n0
       else (match env_find (N.sub n0 (Npos XH)) env with
             | Some p -> let (t, b) = p in if b then t else DUnknown n0
             | None -> DUnknown n0))
  | RPrim p -> DLit p

type usite =
| ULet of string * dt
| UAssign of string * dt
| URet of dt
| UCondSingle of dt
| UCondLogic of dt
| UCall of string * dt list

(** val scan0 : denv -> instr list -> usite list **)

let rec scan0 env = function
| [] -> []
| i :: c' ->
  (match i with
   | IExprValue (v, r) -> scan0 (((r, (DRead v.v_inner)), false) :: env) c'
   | IExprConst (k, r) -> scan0 (((r, (DConst k.c_name)), false) :: env) c'
   | IExprStruct (v, idx, r) ->
     scan0 (((r, (DField (v.v_inner, idx))), true) :: env) c'
   | IExprOp (o, l, r, reg) ->
     scan0 (((reg, (DOp (o, (operand env l), (operand env r)))),
       false) :: env) c'
   | ICall (f, args, r) ->
     let a = map (operand env) args in
     (UCall (f.f_name,
     a)) :: (scan0 (((r, (DCall (f.f_name, a))), true) :: env) c')
   | ILet (v, e) -> (ULet (v.v_inner, (operand env e))) :: (scan0 env c')
   | IBind (v, e) -> (UAssign (v.v_inner, (operand env e))) :: (scan0 env c')
   | IFnRet e -> (URet (operand env e)) :: (scan0 env c')
   | IFnRetLabel e -> (URet (operand env e)) :: (scan0 env c')
   | IIfCondExpr (e, _, _) -> (UCondSingle (operand env e)) :: (scan0 env c')
   | ICondExpr (l, r, cmp, reg) ->
     scan0 (((reg, (DCmp (cmp, (operand env l), (operand env r)))),
       false) :: env) c'
   | IJumpFnRet e -> (URet (operand env e)) :: (scan0 env c')
   | ILogic (o, lreg, rreg, reg) ->
     scan0 (((reg, (DLogic (o, (reg_tree env lreg), (reg_tree env rreg)))),
       false) :: env) c'
   | IIfCondLogic (_, _, reg) ->
     (UCondLogic (reg_tree env reg)) :: (scan0 env c')
   | IExt (tag, r) -> scan0 (((r, (DExt tag)), false) :: env) c'
   | _ -> scan0 env c')

(** val decl_of : instr -> (string * sem_ty) list **)

let decl_of = function
| ILet (v, _) -> (v.v_inner, v.v_ty) :: []
| IFnArg (v, _, _) -> (v.v_inner, v.v_ty) :: []
| _ -> []

(** val stack_decls : instr list -> (string * sem_ty) list **)

let stack_decls c =
  flat_map decl_of c

(** val decl_index : string -> (string * sem_ty) list -> n -> n option **)

let rec decl_index inner d k =
  match d with
  | [] -> None
  | p :: d' ->
    let (n0, _) = p in
    if eqb1 inner n0 then Some k else decl_index inner d' (N.add k (Npos XH))

type tok =
| KLit of prim_val
| KVar of n * string
| KConst of string
| KField of n * string * n
| KCallOpen of string
| KCallSep
| KCallClose
| KExt of n
| KOp of binop
| KCmp of cmpop
| KLogic of logicop
| KOpen
| KClose
| KBad

(** val tok_eqb : bool -> tok -> tok -> bool **)

let tok_eqb sm a b =
  match a with
  | KLit p -> (match b with
               | KLit q -> pv_eqb p q
               | _ -> false)
  | KVar (k, x) ->
    (match b with
     | KVar (k', x') -> (&&) (eqb1 x x') ((||) (negb sm) (N.eqb k k'))
     | KConst y -> (&&) (negb sm) (eqb1 x y)
     | _ -> false)
  | KConst x ->
    (match b with
     | KVar (_, y) -> (&&) (negb sm) (eqb1 x y)
     | KConst y -> eqb1 x y
     | _ -> false)
  | KField (k, x, i) ->
    (match b with
     | KField (k', x', i') ->
       (&&) ((&&) (eqb1 x x') (N.eqb i i')) ((||) (negb sm) (N.eqb k k'))
     | _ -> false)
  | KCallOpen f -> (match b with
                    | KCallOpen g -> eqb1 f g
                    | _ -> false)
  | KCallSep -> (match b with
                 | KCallSep -> true
                 | _ -> false)
  | KCallClose -> (match b with
                   | KCallClose -> true
                   | _ -> false)
  | KExt t -> (match b with
               | KExt u -> N.eqb t u
               | _ -> false)
  | KOp o -> (match b with
              | KOp o' -> bop_eqb o o'
              | _ -> false)
  | KCmp c -> (match b with
               | KCmp c' -> cop_eqb c c'
               | _ -> false)
  | KLogic o -> (match b with
                 | KLogic o' -> lop_eqb o o'
                 | _ -> false)
  | KOpen -> (match b with
              | KOpen -> true
              | _ -> false)
  | KClose -> (match b with
               | KClose -> true
               | _ -> false)
  | KBad -> false

(** val toks_eqb : bool -> tok list -> tok list -> bool **)

let rec toks_eqb sm a b =
  match a with
  | [] -> (match b with
           | [] -> true
           | _ :: _ -> false)
  | x :: a' ->
    (match b with
     | [] -> false
     | y :: b' -> (&&) (tok_eqb sm x y) (toks_eqb sm a' b'))

(** val tokss_eqb : bool -> tok list list -> tok list list -> bool **)

let rec tokss_eqb sm a b =
  match a with
  | [] -> (match b with
           | [] -> true
           | _ :: _ -> false)
  | x :: a' ->
    (match b with
     | [] -> false
     | y :: b' -> (&&) (toks_eqb sm x y) (tokss_eqb sm a' b'))

(** val var_tok : (string * sem_ty) list -> string list -> string -> tok **)

let var_tok d nM inner =
  match decl_index inner d N0 with
  | Some k -> (match nthN nM k with
               | Some x -> KVar (k, x)
               | None -> KBad)
  | None -> KBad

(** val dfield_tok :
    (string * sem_ty) list -> string list -> string -> n -> tok **)

let dfield_tok d nM inner idx =
  match decl_index inner d N0 with
  | Some k ->
    (match nthN nM k with
     | Some x -> KField (k, x, idx)
     | None -> KBad)
  | None -> KBad

(** val dt_toks :
    (string * sem_ty) list -> string list -> dt -> tok list -> tok list **)

let rec dt_toks d nM t acc =
  match t with
  | DLit p -> (KLit p) :: acc
  | DRead inner -> (var_tok d nM inner) :: acc
  | DConst c -> (KConst c) :: acc
  | DField (inner, idx) -> (dfield_tok d nM inner idx) :: acc
  | DCall (f, args) ->
    (KCallOpen
      f) :: (let rec go = function
             | [] -> KCallClose :: acc
             | a :: l' -> dt_toks d nM a (KCallSep :: (go l'))
             in go args)
  | DExt tag -> (KExt tag) :: acc
  | DOp (o, l, r) -> dt_toks d nM l ((KOp o) :: (dt_toks d nM r acc))
  | DCmp (c, l, r) ->
    KOpen :: (dt_toks d nM l ((KCmp c) :: (dt_toks d nM r (KClose :: acc))))
  | DLogic (o, l, r) ->
    KOpen :: (dt_toks d nM l ((KLogic o) :: (dt_toks d nM r (KClose :: acc))))
  | DUnknown _ -> KBad :: acc

type scope0 = (string * n) list

(** val sc_find : string -> scope0 -> n option **)

let rec sc_find x = function
| [] -> None
| p :: sc' -> let (y, k) = p in if eqb1 x y then Some k else sc_find x sc'

type esite =
| ELet of string * n * tok list
| EAssign0 of string * n option * tok list
| ERet0 of tok list
| ECondSingle of tok list
| ECondLogic of tok list
| ECall0 of string * tok list list

(** val expr_calls : expr -> (ident * expr list) list **)

let rec expr_calls = function
| Expr (v, rest) ->
  app (val_calls v)
    (let rec go = function
     | [] -> []
     | p :: l' -> let (_, v') = p in app (val_calls v') (go l')
     in go rest)

(** val val_calls : expr_val -> (ident * expr list) list **)

and val_calls = function
| EVCall (f, args) ->
  app
    (let rec go = function
     | [] -> []
     | a :: l' -> app (expr_calls a) (go l')
     in go args) ((f, args) :: [])
| EVSub e -> expr_calls e
| _ -> []

(** val name_tok : scope0 -> ident -> tok **)

let name_tok sc x =
  match sc_find x.iname sc with
  | Some k -> KVar (k, x.iname)
  | None -> KConst x.iname

(** val field_tok :
    (string * sem_ty) list -> scope0 -> ident -> ident -> tok **)

let field_tok d sc x a =
  match sc_find x.iname sc with
  | Some k ->
    (match nthN d k with
     | Some p ->
       let (_, s0) = p in
       (match s0 with
        | SStruct (_, attrs) ->
          (match attr_lookup a.iname attrs with
           | Some p0 -> let (idx, _) = p0 in KField (k, x.iname, idx)
           | None -> KBad)
        | _ -> KBad)
     | None -> KBad)
  | None -> KBad

(** val expr_toks :
    (string * sem_ty) list -> scope0 -> expr -> tok list -> tok list **)

let expr_toks d sc =
  let rec expr_toks0 e acc =
    let Expr (v, rest) = e in
    val_toks v
      (let rec go = function
       | [] -> acc
       | p :: l' -> let (o, v') = p in (KOp o) :: (val_toks v' (go l'))
       in go rest)
  and val_toks v acc =
    match v with
    | EVName x -> (name_tok sc x) :: acc
    | EVPrim p -> (KLit p) :: acc
    | EVCall (f, args) ->
      (KCallOpen
        f.iname) :: (let rec go = function
                     | [] -> KCallClose :: acc
                     | a :: l' -> expr_toks0 a (KCallSep :: (go l'))
                     in go args)
    | EVField (x, a) -> (field_tok d sc x a) :: acc
    | EVSub e -> expr_toks0 e acc
    | EVExt (_, tag) -> (KExt tag) :: acc
  in expr_toks0

(** val lcond_toks :
    (string * sem_ty) list -> scope0 -> lcond -> tok list -> tok list **)

let rec lcond_toks d sc c acc =
  let LC (l, cmp, r, next) = c in
  (match next with
   | Some p ->
     let (o, c') = p in
     KOpen :: (KOpen :: (expr_toks d sc l ((KCmp
                          cmp) :: (expr_toks d sc r (KClose :: ((KLogic
                                    o) :: (lcond_toks d sc c' (KClose :: acc))))))))
   | None ->
     KOpen :: (expr_toks d sc l ((KCmp
                cmp) :: (expr_toks d sc r (KClose :: acc)))))

(** val etoks : (string * sem_ty) list -> scope0 -> expr -> tok list **)

let etoks d sc e =
  expr_toks d sc e []

(** val call_site :
    (string * sem_ty) list -> scope0 -> (ident * expr list) -> esite **)

let call_site d sc c =
  ECall0 ((fst c).iname, (map (etoks d sc) (snd c)))

(** val call_sites :
    (string * sem_ty) list -> scope0 -> expr -> esite list **)

let call_sites d sc e =
  map (call_site d sc) (expr_calls e)

(** val lcond_calls :
    (string * sem_ty) list -> scope0 -> lcond -> esite list **)

let rec lcond_calls d sc = function
| LC (l, _, r, next) ->
  app (call_sites d sc l)
    (app (call_sites d sc r)
      (match next with
       | Some p -> let (_, c') = p in lcond_calls d sc c'
       | None -> []))

(** val cond_sites :
    (string * sem_ty) list -> scope0 -> cond -> esite list **)

let cond_sites d sc = function
| CSingle e -> app (call_sites d sc e) ((ECondSingle (etoks d sc e)) :: [])
| CLogic lc ->
  app (lcond_calls d sc lc) ((ECondLogic (lcond_toks d sc lc [])) :: [])

(** val stmt_sites :
    (string * sem_ty) list -> stmt -> scope0 -> n -> (esite list * scope0) * n **)

let stmt_sites d =
  let rec stmt_sites0 s sc k =
    match s with
    | SLet (x, _, _, e) ->
      (((app (call_sites d sc e) ((ELet (x.iname, k, (etoks d sc e))) :: [])),
        ((x.iname, k) :: sc)), (N.add k (Npos XH)))
    | SBind (x, e) ->
      (((app (call_sites d sc e) ((EAssign0 (x.iname, (sc_find x.iname sc),
          (etoks d sc e))) :: [])), sc), k)
    | SCall (f, args) ->
      (((app (flat_map (call_sites d sc) args)
          ((call_site d sc (f, args)) :: [])), sc), k)
    | SIf i -> let (l, k') = if_sites i sc k in ((l, sc), k')
    | SLoop body ->
      let (l, k') =
        let rec go ss sc0 k0 =
          match ss with
          | [] -> ([], k0)
          | s' :: ss' ->
            let (p, k1) = stmt_sites0 s' sc0 k0 in
            let (a, sc1) = p in let (b, k2) = go ss' sc1 k1 in ((app a b), k2)
        in go body sc k
      in
      ((l, sc), k')
    | SRet e ->
      (((app (call_sites d sc e) ((ERet0 (etoks d sc e)) :: [])), sc), k)
    | SExprStmt e ->
      (((app (call_sites d sc e) ((ERet0 (etoks d sc e)) :: [])), sc), k)
    | _ -> (([], sc), k)
  and if_sites i sc k =
    let IfS (c, body, els, elif) = i in
    let (b, k1) = ifbody_sites body sc k in
    let (e, k2) =
      match els with
      | Some eb -> ifbody_sites eb sc k1
      | None ->
        (match elif with
         | Some ei -> if_sites ei sc k1
         | None -> ([], k1))
    in
    ((app (cond_sites d sc c) (app b e)), k2)
  and ifbody_sites b sc k =
    match b with
    | IBIf ss ->
      let rec go ss0 sc0 k0 =
        match ss0 with
        | [] -> ([], k0)
        | s' :: ss' ->
          let (p, k1) = stmt_sites0 s' sc0 k0 in
          let (a, sc1) = p in let (b0, k2) = go ss' sc1 k1 in ((app a b0), k2)
      in go ss sc k
    | IBLoop ss ->
      let rec go ss0 sc0 k0 =
        match ss0 with
        | [] -> ([], k0)
        | s' :: ss' ->
          let (p, k1) = stmt_sites0 s' sc0 k0 in
          let (a, sc1) = p in let (b0, k2) = go ss' sc1 k1 in ((app a b0), k2)
      in go ss sc k
  in stmt_sites0

(** val stmts_sites :
    (string * sem_ty) list -> stmt list -> scope0 -> n -> esite list **)

let rec stmts_sites d ss sc k =
  match ss with
  | [] -> []
  | s :: ss' ->
    let (p, k1) = stmt_sites d s sc k in
    let (a, sc1) = p in app a (stmts_sites d ss' sc1 k1)

(** val param_scope0 : (ident * ast_ty) list -> scope0 -> n -> scope0 * n **)

let rec param_scope0 ps sc k =
  match ps with
  | [] -> (sc, k)
  | p :: ps' ->
    let (x, _) = p in
    param_scope0 ps' ((x.iname, k) :: sc) (N.add k (Npos XH))

(** val fn_sites : (string * sem_ty) list -> fn_decl -> esite list **)

let fn_sites d f =
  let (sc, k) = param_scope0 f.fn_params [] N0 in stmts_sites d f.fn_body sc k

(** val let_name : esite -> string list **)

let let_name = function
| ELet (x, _, _) -> x :: []
| _ -> []

(** val decl_names0 : fn_decl -> esite list -> string list **)

let decl_names0 f es =
  app (map (fun p -> (fst p).iname) f.fn_params) (flat_map let_name es)

(** val opt_N_eqb : n option -> n -> bool **)

let opt_N_eqb a b =
  match a with
  | Some x -> N.eqb x b
  | None -> false

(** val opt_str_eqb : string option -> string -> bool **)

let opt_str_eqb a b =
  match a with
  | Some x -> eqb1 x b
  | None -> false

(** val tree_is :
    bool -> (string * sem_ty) list -> string list -> dt -> tok list -> bool **)

let tree_is sm d nM t e =
  toks_eqb sm (dt_toks d nM t []) e

(** val site_eqb :
    bool -> (string * sem_ty) list -> string list -> usite -> esite -> bool **)

let site_eqb sm d nM u e =
  match u with
  | ULet (inner, t) ->
    (match e with
     | ELet (x, k, toks) ->
       (&&)
         (match decl_index inner d N0 with
          | Some k' ->
            (&&) (opt_str_eqb (nthN nM k') x) ((||) (negb sm) (N.eqb k k'))
          | None -> false) (tree_is sm d nM t toks)
     | _ -> false)
  | UAssign (inner, t) ->
    (match e with
     | EAssign0 (x, k, toks) ->
       (&&)
         (match decl_index inner d N0 with
          | Some k' ->
            (&&) (opt_str_eqb (nthN nM k') x)
              ((||) (negb sm) (opt_N_eqb k k'))
          | None -> false) (tree_is sm d nM t toks)
     | _ -> false)
  | URet t -> (match e with
               | ERet0 toks -> tree_is sm d nM t toks
               | _ -> false)
  | UCondSingle t ->
    (match e with
     | ECondSingle toks -> tree_is sm d nM t toks
     | _ -> false)
  | UCondLogic t ->
    (match e with
     | ECondLogic toks -> tree_is sm d nM t toks
     | _ -> false)
  | UCall (f, args) ->
    (match e with
     | ECall0 (g, toks) ->
       (&&) (eqb1 f g)
         (tokss_eqb sm (map (fun a -> dt_toks d nM a []) args) toks)
     | _ -> false)

(** val sites_eqb :
    bool -> (string * sem_ty) list -> string list -> usite list -> esite list
    -> bool **)

let rec sites_eqb sm d nM us es =
  match us with
  | [] -> (match es with
           | [] -> true
           | _ :: _ -> false)
  | u :: us' ->
    (match es with
     | [] -> false
     | e :: es' -> (&&) (site_eqb sm d nM u e) (sites_eqb sm d nM us' es'))

(** val chk_C06_fn : bool -> fn_decl -> block -> bool **)

let chk_C06_fn sm f root =
  let c = root.b_ctx in
  let d = stack_decls c in
  let es = fn_sites d f in
  let nM = decl_names0 f es in
  (&&) (same_len d nM) (sites_eqb sm d nM (scan0 [] c) es)

(** val chk_C06_fns : bool -> fn_decl list -> block list -> bool **)

let rec chk_C06_fns sm fs roots =
  match fs with
  | [] -> (match roots with
           | [] -> true
           | _ :: _ -> false)
  | f :: fs' ->
    (match roots with
     | [] -> false
     | r :: roots' -> (&&) (chk_C06_fn sm f r) (chk_C06_fns sm fs' roots'))

(** val chk_C06_gen : bool -> program -> output -> bool **)

let chk_C06_gen sm p o =
  match o.o_errors with
  | [] -> chk_C06_fns sm (functions_of p) o.o_fns
  | _ :: _ -> true

(** val chk_C06 : program -> output -> bool **)

let chk_C06 =
  chk_C06_gen false

(** val chk_C06_scoped : program -> output -> bool **)

let chk_C06_scoped =
  chk_C06_gen true

(** val expr_exts : expr -> (n * ast_ty) list **)

let rec expr_exts = function
| Expr (v, rest) ->
  app (val_exts v)
    (let rec go = function
     | [] -> []
     | p :: l' -> let (_, v') = p in app (val_exts v') (go l')
     in go rest)

(** val val_exts : expr_val -> (n * ast_ty) list **)

and val_exts = function
| EVCall (_, args) ->
  let rec go = function
  | [] -> []
  | a :: l' -> app (expr_exts a) (go l')
  in go args
| EVSub e -> expr_exts e
| EVExt (t, tag) -> (tag, t) :: []
| _ -> []

(** val lcond_exts : lcond -> (n * ast_ty) list **)

let rec lcond_exts = function
| LC (l, _, r, next) ->
  app (expr_exts l)
    (app (expr_exts r)
      (match next with
       | Some p -> let (_, c') = p in lcond_exts c'
       | None -> []))

(** val cond_exts : cond -> (n * ast_ty) list **)

let cond_exts = function
| CSingle e -> expr_exts e
| CLogic l -> lcond_exts l

(** val stmt_exts : stmt -> (n * ast_ty) list **)

let rec stmt_exts = function
| SLet (_, _, _, e) -> expr_exts e
| SBind (_, e) -> expr_exts e
| SCall (_, args) -> flat_map expr_exts args
| SIf i -> if_exts i
| SLoop body ->
  let rec go = function
  | [] -> []
  | x :: l' -> app (stmt_exts x) (go l')
  in go body
| SRet e -> expr_exts e
| SExprStmt e -> expr_exts e
| _ -> []

(** val if_exts : ifstmt -> (n * ast_ty) list **)

and if_exts = function
| IfS (c, body, els, elif) ->
  app (cond_exts c)
    (app (ifbody_exts body)
      (match els with
       | Some eb -> ifbody_exts eb
       | None -> (match elif with
                  | Some ei -> if_exts ei
                  | None -> [])))

(** val ifbody_exts : ifbody -> (n * ast_ty) list **)

and ifbody_exts = function
| IBIf ss ->
  let rec go = function
  | [] -> []
  | x :: l' -> app (stmt_exts x) (go l')
  in go ss
| IBLoop ss ->
  let rec go = function
  | [] -> []
  | x :: l' -> app (stmt_exts x) (go l')
  in go ss

(** val fn_exts : fn_decl -> (n * ast_ty) list **)

let fn_exts f =
  flat_map stmt_exts f.fn_body

(** val ext_of : instr -> (n * n) list **)

let ext_of = function
| IExt (tag, r) -> (tag, r) :: []
| _ -> []

(** val stack_exts : instr list -> (n * n) list **)

let stack_exts c =
  flat_map ext_of c

(** val list_N_eqb : n list -> n list -> bool **)

let rec list_N_eqb a b =
  match a with
  | [] -> (match b with
           | [] -> true
           | _ :: _ -> false)
  | x :: a' ->
    (match b with
     | [] -> false
     | y :: b' -> (&&) (N.eqb x y) (list_N_eqb a' b'))

(** val chk_order_fn : fn_decl -> block -> bool **)

let chk_order_fn f root =
  list_N_eqb (map fst (stack_exts root.b_ctx)) (map fst (fn_exts f))

(** val operands_of : instr -> eres list **)

let operands_of = function
| IExprOp (_, l, r, _) -> l :: (r :: [])
| ICall (_, args, _) -> args
| ILet (_, e) -> e :: []
| IBind (_, e) -> e :: []
| IFnRet e -> e :: []
| IFnRetLabel e -> e :: []
| IIfCondExpr (e, _, _) -> e :: []
| ICondExpr (l, r, _, _) -> l :: (r :: [])
| IJumpFnRet e -> e :: []
| _ -> []

(** val ext_pos : n -> (n * n) list -> n option **)

let rec ext_pos n0 = function
| [] -> None
| p :: s' -> let (r, j) = p in if N.eqb n0 r then Some j else ext_pos n0 s'

(** val nthN0 : 'a1 list -> n -> 'a1 option **)

let rec nthN0 l n0 =
  match l with
  | [] -> None
  | x :: l' -> if N.eqb n0 N0 then Some x else nthN0 l' (N.sub n0 (Npos XH))

(** val operand_ty_ok : (n * ast_ty) list -> (n * n) list -> eres -> bool **)

let operand_ty_ok src seen0 e =
  match e.r_val with
  | RReg n0 ->
    (match ext_pos n0 seen0 with
     | Some j ->
       (match nthN0 src j with
        | Some p -> let (_, t) = p in sem_ty_eqb e.r_ty (sem_of_ty t)
        | None -> false)
     | None -> true)
  | RPrim _ -> true

(** val scan_types :
    (n * ast_ty) list -> (n * n) list -> n -> instr list -> bool **)

let rec scan_types src seen0 j = function
| [] -> true
| i :: c' ->
  (&&) (forallb (operand_ty_ok src seen0) (operands_of i))
    (match i with
     | IExt (_, r) -> scan_types src ((r, j) :: seen0) (N.add j (Npos XH)) c'
     | _ -> scan_types src seen0 j c')

(** val count_N : n -> n list -> n **)

let rec count_N n0 = function
| [] -> N0
| m0 :: l' -> N.add (if N.eqb n0 m0 then Npos XH else N0) (count_N n0 l')

(** val used_once : instr list -> bool **)

let used_once c =
  let uses = flat_map use_regs c in
  forallb (fun tr -> N.eqb (count_N (snd tr) uses) (Npos XH)) (stack_exts c)

(** val chk_types_fn : fn_decl -> block -> bool **)

let chk_types_fn f root =
  (&&) (scan_types (fn_exts f) [] N0 root.b_ctx) (used_once root.b_ctx)

(** val ext_eqb : (n * n) -> (n * n) -> bool **)

let ext_eqb a b =
  (&&) (N.eqb (fst a) (fst b)) (N.eqb (snd a) (snd b))

(** val remove_one : (n * n) -> (n * n) list -> (n * n) list option **)

let rec remove_one x = function
| [] -> None
| y :: l' ->
  if ext_eqb x y
  then Some l'
  else (match remove_one x l' with
        | Some r -> Some (y :: r)
        | None -> None)

(** val sub_multiset : (n * n) list -> (n * n) list -> bool **)

let rec sub_multiset a b =
  match a with
  | [] -> true
  | x :: a' ->
    (match remove_one x b with
     | Some b' -> sub_multiset a' b'
     | None -> false)

(** val chk_blocks_tree : block -> bool **)

let rec chk_blocks_tree b =
  let { b_values = _; b_inner = _; b_labels = _; b_reg = _; b_mret = _;
    b_ctx = ctx; b_kids = kids } = b
  in
  let rec go = function
  | [] -> true
  | k :: ks' ->
    (&&)
      ((&&) (sub_multiset (stack_exts k.b_ctx) (stack_exts ctx))
        (chk_blocks_tree k)) (go ks')
  in go kids

(** val all_fns :
    (fn_decl -> block -> bool) -> fn_decl list -> block list -> bool **)

let rec all_fns chk fs roots =
  match fs with
  | [] -> (match roots with
           | [] -> true
           | _ :: _ -> false)
  | f :: fs' ->
    (match roots with
     | [] -> false
     | r :: roots' -> (&&) (chk f r) (all_fns chk fs' roots'))

(** val accepted_only : output -> bool -> bool **)

let accepted_only o b =
  match o.o_errors with
  | [] -> b
  | _ :: _ -> true

(** val chk_C19_order : program -> output -> bool **)

let chk_C19_order p o =
  accepted_only o (all_fns chk_order_fn (functions_of p) o.o_fns)

(** val chk_C19_types : program -> output -> bool **)

let chk_C19_types p o =
  accepted_only o (all_fns chk_types_fn (functions_of p) o.o_fns)

(** val chk_C19_blocks : program -> output -> bool **)

let chk_C19_blocks _ o =
  accepted_only o (forallb chk_blocks_tree o.o_fns)

(** val chk_C19 : program -> output -> bool **)

let chk_C19 p o =
  (&&) ((&&) (chk_C19_order p o) (chk_C19_types p o)) (chk_C19_blocks p o)

(** val sfx : string -> n **)

let sfx n0 =
  match split_dot n0 with
  | [] -> N0
  | _ :: l ->
    (match l with
     | [] -> N0
     | b :: l0 -> (match l0 with
                   | [] -> parse_u64_or_0 b
                   | _ :: _ -> N0))

(** val two32 : n **)

let two32 =
  Npos (XO (XO (XO (XO (XO (XO (XO (XO (XO (XO (XO (XO (XO (XO (XO (XO (XO
    (XO (XO (XO (XO (XO (XO (XO (XO (XO (XO (XO (XO (XO (XO (XO
    XH))))))))))))))))))))))))))))))))

(** val name_ok : ident -> bool **)

let name_ok x =
  N.ltb (sfx x.iname) two32

(** val walk_stmt :
    (bool -> bool -> stmt -> bool) -> (bool -> ifbody -> bool) -> bool ->
    bool -> stmt -> bool **)

let walk_stmt chk chkb =
  let rec walk_stmt0 brk inl st =
    (&&) (chk brk inl st)
      (match st with
       | SIf i -> walk_if0 inl i
       | SLoop body -> forallb (walk_stmt0 true true) body
       | _ -> true)
  and walk_if0 inl = function
  | IfS (_, body, els, elif) ->
    (&&)
      ((&&) (walk_body inl body)
        (match els with
         | Some b -> walk_body inl b
         | None -> true))
      (match elif with
       | Some i' -> walk_if0 inl i'
       | None -> true)
  and walk_body inl b =
    (&&) (chkb inl b)
      (match b with
       | IBIf ss -> forallb (walk_stmt0 false inl) ss
       | IBLoop ss -> forallb (walk_stmt0 true inl) ss)
  in walk_stmt0

(** val walk_if :
    (bool -> bool -> stmt -> bool) -> (bool -> ifbody -> bool) -> bool ->
    ifstmt -> bool **)

let walk_if chk chkb =
  let rec walk_stmt0 brk inl st =
    (&&) (chk brk inl st)
      (match st with
       | SIf i -> walk_if0 inl i
       | SLoop body -> forallb (walk_stmt0 true true) body
       | _ -> true)
  and walk_if0 inl = function
  | IfS (_, body, els, elif) ->
    (&&)
      ((&&) (walk_body inl body)
        (match els with
         | Some b -> walk_body inl b
         | None -> true))
      (match elif with
       | Some i' -> walk_if0 inl i'
       | None -> true)
  and walk_body inl b =
    (&&) (chkb inl b)
      (match b with
       | IBIf ss -> forallb (walk_stmt0 false inl) ss
       | IBLoop ss -> forallb (walk_stmt0 true inl) ss)
  in walk_if0

(** val walk_fn_stmt :
    (bool -> bool -> stmt -> bool) -> (bool -> ifbody -> bool) -> (stmt ->
    bool) -> stmt -> bool **)

let walk_fn_stmt chk chkb chk_fn st =
  (&&) (chk_fn st)
    (match st with
     | SIf i -> walk_if chk chkb false i
     | SLoop body -> forallb (walk_stmt chk chkb true true) body
     | _ -> true)

(** val chk_kind : bool -> bool -> stmt -> bool **)

let chk_kind brk _ = function
| SExprStmt _ -> false
| SBreak -> brk
| SContinue -> brk
| _ -> true

(** val chk_kind_fn : stmt -> bool **)

let chk_kind_fn = function
| SBreak -> false
| SContinue -> false
| _ -> true

(** val any_body : bool -> ifbody -> bool **)

let any_body _ _ =
  true

(** val kinded_fn : fn_decl -> bool **)

let kinded_fn f =
  forallb (walk_fn_stmt chk_kind any_body chk_kind_fn) f.fn_body

(** val any_stmt : bool -> bool -> stmt -> bool **)

let any_stmt _ _ _ =
  true

(** val chk_loop_body : bool -> ifbody -> bool **)

let chk_loop_body inl = function
| IBIf _ -> true
| IBLoop _ -> inl

(** val loops_fn : fn_decl -> bool **)

let loops_fn f =
  forallb (walk_fn_stmt any_stmt chk_loop_body (fun _ -> true)) f.fn_body

(** val chk_name : bool -> bool -> stmt -> bool **)

let chk_name _ _ = function
| SLet (x, _, _, _) -> name_ok x
| _ -> true

(** val names_fn : fn_decl -> bool **)

let names_fn f =
  (&&)
    ((&&) (forallb (fun p -> name_ok (fst p)) f.fn_params)
      (forallb (walk_fn_stmt chk_name any_body (chk_name false false))
        f.fn_body)) (N.ltb (N.of_nat (size_fn f)) two32)

(** val fn_in_domain_b : fn_decl -> bool **)

let fn_in_domain_b f =
  (&&) ((&&) (kinded_fn f) (loops_fn f)) (names_fn f)

(** val in_domain_b : program -> bool **)

let in_domain_b p =
  forallb fn_in_domain_b (functions_of p)

(** val direct_lets : stmt list -> string list **)

let direct_lets ss =
  flat_map (fun s ->
    match s with
    | SLet (x, _, _, _) -> x.iname :: []
    | _ -> []) ss

(** val bodies_if : ifstmt -> stmt list list **)

let rec bodies_if = function
| IfS (_, body, els, elif) ->
  (match body with
   | IBIf ss -> ss
   | IBLoop ss -> ss) :: (match els with
                          | Some i0 ->
                            (match i0 with
                             | IBIf ss -> ss :: []
                             | IBLoop ss -> ss :: [])
                          | None ->
                            (match elif with
                             | Some i' -> bodies_if i'
                             | None -> []))

(** val bodies_stmt : stmt -> stmt list list **)

let bodies_stmt = function
| SIf i -> bodies_if i
| SLoop body -> body :: []
| _ -> []

(** val kid_bodies : stmt list -> stmt list list **)

let kid_bodies ss =
  flat_map bodies_stmt ss

(** val direct_decls : block -> value list **)

let direct_decls b =
  let kid_names = flat_map (fun k -> decl_names k.b_ctx) b.b_kids in
  filter (fun v -> negb (smem v.v_inner kid_names)) (decl_values b.b_ctx)

(** val build_table :
    string list -> value list -> (string * value) list -> (string * value)
    list option **)

let rec build_table names vals acc =
  match names with
  | [] -> (match vals with
           | [] -> Some acc
           | _ :: _ -> None)
  | x :: names' ->
    (match vals with
     | [] -> None
     | v :: vals' -> build_table names' vals' (ainsert x v acc))

(** val table_eqb0 :
    (string * value) list -> (string * value) list -> bool **)

let table_eqb0 a b =
  (&&) (Nat.eqb (length a) (length b))
    (forallb (fun kv ->
      match alookup (fst kv) b with
      | Some v -> value_eqb (snd kv) v
      | None -> false) a)

(** val chk_vals : nat -> string list -> stmt list -> block -> bool **)

let rec chk_vals fuel own ss b =
  match fuel with
  | O -> false
  | S f ->
    (match build_table (app own (direct_lets ss)) (direct_decls b) [] with
     | Some t ->
       (&&) (table_eqb0 t b.b_values)
         (let rec go bodies0 ks =
            match bodies0 with
            | [] -> (match ks with
                     | [] -> true
                     | _ :: _ -> false)
            | body :: bodies' ->
              (match ks with
               | [] -> false
               | k :: ks' -> (&&) (chk_vals f [] body k) (go bodies' ks'))
          in go (kid_bodies ss) b.b_kids)
     | None -> false)

(** val chk_C18_values_fn : fn_decl -> block -> bool **)

let chk_C18_values_fn f root =
  chk_vals (S (S (size_fn f))) (map (fun p -> (fst p).iname) f.fn_params)
    f.fn_body root

(** val chk_C18_values_fns : fn_decl list -> block list -> bool **)

let rec chk_C18_values_fns fs roots =
  match fs with
  | [] -> (match roots with
           | [] -> true
           | _ :: _ -> false)
  | f :: fs' ->
    (match roots with
     | [] -> false
     | r :: roots' ->
       (&&) (chk_C18_values_fn f r) (chk_C18_values_fns fs' roots'))

(** val chk_C18_values : program -> output -> bool **)

let chk_C18_values p o =
  match o.o_errors with
  | [] -> chk_C18_values_fns (functions_of p) o.o_fns
  | _ :: _ -> true

(** val block_summary : block -> n list **)

let rec block_summary b =
  let { b_values = vals; b_inner = inner; b_labels = labels; b_reg = reg;
    b_mret = mret; b_ctx = ctx; b_kids = kids } = b
  in
  app
    ((N.of_nat (length vals)) :: ((N.of_nat (length inner)) :: ((N.of_nat
                                                                  (length
                                                                    labels)) :: (reg :: ((
    if mret then Npos XH else N0) :: ((N.of_nat (length ctx)) :: ((N.of_nat
                                                                    (length
                                                                    kids)) :: [])))))))
    (let rec go = function
     | [] -> []
     | k :: ks' -> app (block_summary k) (go ks')
     in go kids)

(** val summary : run_result -> n list **)

let summary = function
| ROk o ->
  app ((Npos
    XH) :: ((N.of_nat (length o.o_errors)) :: ((N.of_nat
                                                 (length o.o_globals.g_types)) :: (
    (N.of_nat (length o.o_globals.g_consts)) :: ((N.of_nat
                                                   (length
                                                     o.o_globals.g_funcs)) :: (
    (N.of_nat (length o.o_gstack)) :: ((if chk_C09 o then Npos XH else N0) :: ((
    if chk_C12 o then Npos XH else N0) :: []))))))))
    (flat_map block_summary o.o_fns)
| RPanic _ -> (Npos (XO XH)) :: []
| ROutOfFuel -> (Npos (XI XH)) :: []

type json =
| JNull
| JBool of bool
| JNum of z
| JFloat32 of z
| JFloat64 of z
| JStr of string
| JChar of z
| JArr of json list
| JObj of (string * json) list

(** val tag0 : string -> json **)

let tag0 t =
  JObj (((String ((Ascii (false, false, true, false, true, true, true,
    false)), (String ((Ascii (true, false, false, true, true, true, true,
    false)), (String ((Ascii (false, false, false, false, true, true, true,
    false)), (String ((Ascii (true, false, true, false, false, true, true,
    false)), EmptyString)))))))), (JStr t)) :: [])

(** val tagc : string -> json -> json **)

let tagc t c =
  JObj (((String ((Ascii (false, false, true, false, true, true, true,
    false)), (String ((Ascii (true, false, false, true, true, true, true,
    false)), (String ((Ascii (false, false, false, false, true, true, true,
    false)), (String ((Ascii (true, false, true, false, false, true, true,
    false)), EmptyString)))))))), (JStr t)) :: (((String ((Ascii (true, true,
    false, false, false, true, true, false)), (String ((Ascii (true, true,
    true, true, false, true, true, false)), (String ((Ascii (false, true,
    true, true, false, true, true, false)), (String ((Ascii (false, false,
    true, false, true, true, true, false)), (String ((Ascii (true, false,
    true, false, false, true, true, false)), (String ((Ascii (false, true,
    true, true, false, true, true, false)), (String ((Ascii (false, false,
    true, false, true, true, true, false)), EmptyString)))))))))))))),
    c) :: []))

(** val enc_opt : ('a1 -> json) -> 'a1 option -> json **)

let enc_opt f = function
| Some a -> f a
| None -> JNull

(** val enc_N : n -> json **)

let enc_N n0 =
  JNum (Z.of_N n0)

(** val enc_str : string -> json **)

let enc_str s =
  JStr s

(** val enc_ident : ident -> json **)

let enc_ident i =
  JObj (((String ((Ascii (true, true, true, true, false, true, true, false)),
    (String ((Ascii (false, true, true, false, false, true, true, false)),
    (String ((Ascii (false, true, true, false, false, true, true, false)),
    (String ((Ascii (true, true, false, false, true, true, true, false)),
    (String ((Ascii (true, false, true, false, false, true, true, false)),
    (String ((Ascii (false, false, true, false, true, true, true, false)),
    EmptyString)))))))))))), (enc_N i.ioff)) :: (((String ((Ascii (false,
    false, true, true, false, true, true, false)), (String ((Ascii (true,
    false, false, true, false, true, true, false)), (String ((Ascii (false,
    true, true, true, false, true, true, false)), (String ((Ascii (true,
    false, true, false, false, true, true, false)), EmptyString)))))))),
    (enc_N i.iline)) :: (((String ((Ascii (false, true, true, false, false,
    true, true, false)), (String ((Ascii (false, true, false, false, true,
    true, true, false)), (String ((Ascii (true, false, false, false, false,
    true, true, false)), (String ((Ascii (true, true, true, false, false,
    true, true, false)), (String ((Ascii (true, false, true, true, false,
    true, true, false)), (String ((Ascii (true, false, true, false, false,
    true, true, false)), (String ((Ascii (false, true, true, true, false,
    true, true, false)), (String ((Ascii (false, false, true, false, true,
    true, true, false)), EmptyString)))))))))))))))), (JStr
    i.iname)) :: (((String ((Ascii (true, false, true, false, false, true,
    true, false)), (String ((Ascii (false, false, false, true, true, true,
    true, false)), (String ((Ascii (false, false, true, false, true, true,
    true, false)), (String ((Ascii (false, true, false, false, true, true,
    true, false)), (String ((Ascii (true, false, false, false, false, true,
    true, false)), EmptyString)))))))))), JNull) :: []))))

(** val enc_enum : ('a1 -> string) -> 'a1 -> json **)

let enc_enum name x =
  tag0 (name x)

(** val enc_prim_ty : prim_ty -> json **)

let enc_prim_ty =
  enc_enum prim_ty_name

(** val enc_binop : binop -> json **)

let enc_binop =
  enc_enum binop_name

(** val enc_cmpop : cmpop -> json **)

let enc_cmpop =
  enc_enum cmpop_name

(** val enc_logicop : logicop -> json **)

let enc_logicop =
  enc_enum logicop_name

(** val enc_err_kind : err_kind -> json **)

let enc_err_kind =
  enc_enum err_kind_name

(** val enc_prim_val : prim_val -> json **)

let enc_prim_val p =
  let b = p.pv_bits in
  (match p.pv_ty with
   | PF32 ->
     tagc (String ((Ascii (false, true, true, false, false, false, true,
       false)), (String ((Ascii (true, true, false, false, true, true, false,
       false)), (String ((Ascii (false, true, false, false, true, true,
       false, false)), EmptyString)))))) (JFloat32 b)
   | PF64 ->
     tagc (String ((Ascii (false, true, true, false, false, false, true,
       false)), (String ((Ascii (false, true, true, false, true, true, false,
       false)), (String ((Ascii (false, false, true, false, true, true,
       false, false)), EmptyString)))))) (JFloat64 b)
   | PBool ->
     tagc (String ((Ascii (false, true, false, false, false, false, true,
       false)), (String ((Ascii (true, true, true, true, false, true, true,
       false)), (String ((Ascii (true, true, true, true, false, true, true,
       false)), (String ((Ascii (false, false, true, true, false, true, true,
       false)), EmptyString))))))))
       (if Z.eqb b Z0
        then JBool false
        else if Z.eqb b (Zpos XH) then JBool true else JNum b)
   | PChar ->
     tagc (String ((Ascii (true, true, false, false, false, false, true,
       false)), (String ((Ascii (false, false, false, true, false, true,
       true, false)), (String ((Ascii (true, false, false, false, false,
       true, true, false)), (String ((Ascii (false, true, false, false, true,
       true, true, false)), EmptyString)))))))) (JChar b)
   | PPtr ->
     if Z.eqb b Z0
     then tag0 (String ((Ascii (false, false, false, false, true, false,
            true, false)), (String ((Ascii (false, false, true, false, true,
            true, true, false)), (String ((Ascii (false, true, false, false,
            true, true, true, false)), EmptyString))))))
     else tagc (String ((Ascii (false, false, false, false, true, false,
            true, false)), (String ((Ascii (false, false, true, false, true,
            true, true, false)), (String ((Ascii (false, true, false, false,
            true, true, true, false)), EmptyString)))))) (JNum b)
   | PNone ->
     if Z.eqb b Z0
     then tag0 (String ((Ascii (false, true, true, true, false, false, true,
            false)), (String ((Ascii (true, true, true, true, false, true,
            true, false)), (String ((Ascii (false, true, true, true, false,
            true, true, false)), (String ((Ascii (true, false, true, false,
            false, true, true, false)), EmptyString))))))))
     else tagc (String ((Ascii (false, true, true, true, false, false, true,
            false)), (String ((Ascii (true, true, true, true, false, true,
            true, false)), (String ((Ascii (false, true, true, true, false,
            true, true, false)), (String ((Ascii (true, false, true, false,
            false, true, true, false)), EmptyString)))))))) (JNum b)
   | x -> tagc (prim_ty_name x) (JNum b))

(** val enc_attr : ident -> json -> json **)

let enc_attr x tj =
  JObj (((String ((Ascii (true, false, false, false, false, true, true,
    false)), (String ((Ascii (false, false, true, false, true, true, true,
    false)), (String ((Ascii (false, false, true, false, true, true, true,
    false)), (String ((Ascii (false, true, false, false, true, true, true,
    false)), (String ((Ascii (true, true, true, true, true, false, true,
    false)), (String ((Ascii (false, true, true, true, false, true, true,
    false)), (String ((Ascii (true, false, false, false, false, true, true,
    false)), (String ((Ascii (true, false, true, true, false, true, true,
    false)), (String ((Ascii (true, false, true, false, false, true, true,
    false)), EmptyString)))))))))))))))))), (enc_ident x)) :: (((String
    ((Ascii (true, false, false, false, false, true, true, false)), (String
    ((Ascii (false, false, true, false, true, true, true, false)), (String
    ((Ascii (false, false, true, false, true, true, true, false)), (String
    ((Ascii (false, true, false, false, true, true, true, false)), (String
    ((Ascii (true, true, true, true, true, false, true, false)), (String
    ((Ascii (false, false, true, false, true, true, true, false)), (String
    ((Ascii (true, false, false, true, true, true, true, false)), (String
    ((Ascii (false, false, false, false, true, true, true, false)), (String
    ((Ascii (true, false, true, false, false, true, true, false)),
    EmptyString)))))))))))))))))), tj) :: []))

(** val enc_ast_ty : ast_ty -> json **)

let rec enc_ast_ty = function
| TPrim p ->
  tagc (String ((Ascii (false, false, false, false, true, false, true,
    false)), (String ((Ascii (false, true, false, false, true, true, true,
    false)), (String ((Ascii (true, false, false, true, false, true, true,
    false)), (String ((Ascii (true, false, true, true, false, true, true,
    false)), (String ((Ascii (true, false, false, true, false, true, true,
    false)), (String ((Ascii (false, false, true, false, true, true, true,
    false)), (String ((Ascii (true, false, false, true, false, true, true,
    false)), (String ((Ascii (false, true, true, false, true, true, true,
    false)), (String ((Ascii (true, false, true, false, false, true, true,
    false)), EmptyString)))))))))))))))))) (enc_prim_ty p)
| TStruct (n0, attrs) ->
  tagc (String ((Ascii (true, true, false, false, true, false, true, false)),
    (String ((Ascii (false, false, true, false, true, true, true, false)),
    (String ((Ascii (false, true, false, false, true, true, true, false)),
    (String ((Ascii (true, false, true, false, true, true, true, false)),
    (String ((Ascii (true, true, false, false, false, true, true, false)),
    (String ((Ascii (false, false, true, false, true, true, true, false)),
    EmptyString)))))))))))) (JObj (((String ((Ascii (false, true, true, true,
    false, true, true, false)), (String ((Ascii (true, false, false, false,
    false, true, true, false)), (String ((Ascii (true, false, true, true,
    false, true, true, false)), (String ((Ascii (true, false, true, false,
    false, true, true, false)), EmptyString)))))))),
    (enc_ident n0)) :: (((String ((Ascii (true, false, false, false, false,
    true, true, false)), (String ((Ascii (false, false, true, false, true,
    true, true, false)), (String ((Ascii (false, false, true, false, true,
    true, true, false)), (String ((Ascii (false, true, false, false, true,
    true, true, false)), (String ((Ascii (true, false, false, true, false,
    true, true, false)), (String ((Ascii (false, true, false, false, false,
    true, true, false)), (String ((Ascii (true, false, true, false, true,
    true, true, false)), (String ((Ascii (false, false, true, false, true,
    true, true, false)), (String ((Ascii (true, false, true, false, false,
    true, true, false)), (String ((Ascii (true, true, false, false, true,
    true, true, false)), EmptyString)))))))))))))))))))), (JArr
    (map (fun a -> let (x, t') = a in enc_attr x (enc_ast_ty t')) attrs))) :: [])))
| TArray (t', n0) ->
  tagc (String ((Ascii (true, false, false, false, false, false, true,
    false)), (String ((Ascii (false, true, false, false, true, true, true,
    false)), (String ((Ascii (false, true, false, false, true, true, true,
    false)), (String ((Ascii (true, false, false, false, false, true, true,
    false)), (String ((Ascii (true, false, false, true, true, true, true,
    false)), EmptyString)))))))))) (JArr
    ((enc_ast_ty t') :: ((enc_N n0) :: [])))

(** val enc_struct_decl : ident -> (ident * ast_ty) list -> json **)

let enc_struct_decl n0 attrs =
  JObj (((String ((Ascii (false, true, true, true, false, true, true,
    false)), (String ((Ascii (true, false, false, false, false, true, true,
    false)), (String ((Ascii (true, false, true, true, false, true, true,
    false)), (String ((Ascii (true, false, true, false, false, true, true,
    false)), EmptyString)))))))), (enc_ident n0)) :: (((String ((Ascii (true,
    false, false, false, false, true, true, false)), (String ((Ascii (false,
    false, true, false, true, true, true, false)), (String ((Ascii (false,
    false, true, false, true, true, true, false)), (String ((Ascii (false,
    true, false, false, true, true, true, false)), (String ((Ascii (true,
    false, false, true, false, true, true, false)), (String ((Ascii (false,
    true, false, false, false, true, true, false)), (String ((Ascii (true,
    false, true, false, true, true, true, false)), (String ((Ascii (false,
    false, true, false, true, true, true, false)), (String ((Ascii (true,
    false, true, false, false, true, true, false)), (String ((Ascii (true,
    true, false, false, true, true, true, false)),
    EmptyString)))))))))))))))))))), (JArr
    (map (fun a -> let (x, t') = a in enc_attr x (enc_ast_ty t')) attrs))) :: []))

(** val enc_sattr : string -> n -> json -> json **)

let enc_sattr x i tj =
  JObj (((String ((Ascii (true, false, false, false, false, true, true,
    false)), (String ((Ascii (false, false, true, false, true, true, true,
    false)), (String ((Ascii (false, false, true, false, true, true, true,
    false)), (String ((Ascii (false, true, false, false, true, true, true,
    false)), (String ((Ascii (true, true, true, true, true, false, true,
    false)), (String ((Ascii (false, true, true, true, false, true, true,
    false)), (String ((Ascii (true, false, false, false, false, true, true,
    false)), (String ((Ascii (true, false, true, true, false, true, true,
    false)), (String ((Ascii (true, false, true, false, false, true, true,
    false)), EmptyString)))))))))))))))))), (JStr x)) :: (((String ((Ascii
    (true, false, false, false, false, true, true, false)), (String ((Ascii
    (false, false, true, false, true, true, true, false)), (String ((Ascii
    (false, false, true, false, true, true, true, false)), (String ((Ascii
    (false, true, false, false, true, true, true, false)), (String ((Ascii
    (true, true, true, true, true, false, true, false)), (String ((Ascii
    (true, false, false, true, false, true, true, false)), (String ((Ascii
    (false, true, true, true, false, true, true, false)), (String ((Ascii
    (false, false, true, false, false, true, true, false)), (String ((Ascii
    (true, false, true, false, false, true, true, false)), (String ((Ascii
    (false, false, false, true, true, true, true, false)),
    EmptyString)))))))))))))))))))), (enc_N i)) :: (((String ((Ascii (true,
    false, false, false, false, true, true, false)), (String ((Ascii (false,
    false, true, false, true, true, true, false)), (String ((Ascii (false,
    false, true, false, true, true, true, false)), (String ((Ascii (false,
    true, false, false, true, true, true, false)), (String ((Ascii (true,
    true, true, true, true, false, true, false)), (String ((Ascii (false,
    false, true, false, true, true, true, false)), (String ((Ascii (true,
    false, false, true, true, true, true, false)), (String ((Ascii (false,
    false, false, false, true, true, true, false)), (String ((Ascii (true,
    false, true, false, false, true, true, false)),
    EmptyString)))))))))))))))))), tj) :: [])))

(** val enc_sem_ty : sem_ty -> json **)

let rec enc_sem_ty = function
| SPrim p ->
  tagc (String ((Ascii (false, false, false, false, true, false, true,
    false)), (String ((Ascii (false, true, false, false, true, true, true,
    false)), (String ((Ascii (true, false, false, true, false, true, true,
    false)), (String ((Ascii (true, false, true, true, false, true, true,
    false)), (String ((Ascii (true, false, false, true, false, true, true,
    false)), (String ((Ascii (false, false, true, false, true, true, true,
    false)), (String ((Ascii (true, false, false, true, false, true, true,
    false)), (String ((Ascii (false, true, true, false, true, true, true,
    false)), (String ((Ascii (true, false, true, false, false, true, true,
    false)), EmptyString)))))))))))))))))) (enc_prim_ty p)
| SStruct (n0, attrs) ->
  tagc (String ((Ascii (true, true, false, false, true, false, true, false)),
    (String ((Ascii (false, false, true, false, true, true, true, false)),
    (String ((Ascii (false, true, false, false, true, true, true, false)),
    (String ((Ascii (true, false, true, false, true, true, true, false)),
    (String ((Ascii (true, true, false, false, false, true, true, false)),
    (String ((Ascii (false, false, true, false, true, true, true, false)),
    EmptyString)))))))))))) (JObj (((String ((Ascii (false, true, true, true,
    false, true, true, false)), (String ((Ascii (true, false, false, false,
    false, true, true, false)), (String ((Ascii (true, false, true, true,
    false, true, true, false)), (String ((Ascii (true, false, true, false,
    false, true, true, false)), EmptyString)))))))), (JStr n0)) :: (((String
    ((Ascii (true, false, false, false, false, true, true, false)), (String
    ((Ascii (false, false, true, false, true, true, true, false)), (String
    ((Ascii (false, false, true, false, true, true, true, false)), (String
    ((Ascii (false, true, false, false, true, true, true, false)), (String
    ((Ascii (true, false, false, true, false, true, true, false)), (String
    ((Ascii (false, true, false, false, false, true, true, false)), (String
    ((Ascii (true, false, true, false, true, true, true, false)), (String
    ((Ascii (false, false, true, false, true, true, true, false)), (String
    ((Ascii (true, false, true, false, false, true, true, false)), (String
    ((Ascii (true, true, false, false, true, true, true, false)),
    EmptyString)))))))))))))))))))), (JObj
    (map (fun a ->
      let (y, t') = a in
      let (x, i) = y in (x, (enc_sattr x i (enc_sem_ty t')))) attrs))) :: (((String
    ((Ascii (true, false, true, true, false, true, true, false)), (String
    ((Ascii (true, false, true, false, false, true, true, false)), (String
    ((Ascii (false, false, true, false, true, true, true, false)), (String
    ((Ascii (false, false, false, true, false, true, true, false)), (String
    ((Ascii (true, true, true, true, false, true, true, false)), (String
    ((Ascii (false, false, true, false, false, true, true, false)), (String
    ((Ascii (true, true, false, false, true, true, true, false)),
    EmptyString)))))))))))))), (JObj [])) :: []))))
| SArray (t', n0) ->
  tagc (String ((Ascii (true, false, false, false, false, false, true,
    false)), (String ((Ascii (false, true, false, false, true, true, true,
    false)), (String ((Ascii (false, true, false, false, true, true, true,
    false)), (String ((Ascii (true, false, false, false, false, true, true,
    false)), (String ((Ascii (true, false, false, true, true, true, true,
    false)), EmptyString)))))))))) (JArr
    ((enc_sem_ty t') :: ((enc_N n0) :: [])))

(** val enc_sstruct_body : string -> ((string * n) * sem_ty) list -> json **)

let enc_sstruct_body n0 attrs =
  JObj (((String ((Ascii (false, true, true, true, false, true, true,
    false)), (String ((Ascii (true, false, false, false, false, true, true,
    false)), (String ((Ascii (true, false, true, true, false, true, true,
    false)), (String ((Ascii (true, false, true, false, false, true, true,
    false)), EmptyString)))))))), (JStr n0)) :: (((String ((Ascii (true,
    false, false, false, false, true, true, false)), (String ((Ascii (false,
    false, true, false, true, true, true, false)), (String ((Ascii (false,
    false, true, false, true, true, true, false)), (String ((Ascii (false,
    true, false, false, true, true, true, false)), (String ((Ascii (true,
    false, false, true, false, true, true, false)), (String ((Ascii (false,
    true, false, false, false, true, true, false)), (String ((Ascii (true,
    false, true, false, true, true, true, false)), (String ((Ascii (false,
    false, true, false, true, true, true, false)), (String ((Ascii (true,
    false, true, false, false, true, true, false)), (String ((Ascii (true,
    true, false, false, true, true, true, false)),
    EmptyString)))))))))))))))))))), (JObj
    (map (fun a ->
      let (y, t') = a in
      let (x, i) = y in (x, (enc_sattr x i (enc_sem_ty t')))) attrs))) :: (((String
    ((Ascii (true, false, true, true, false, true, true, false)), (String
    ((Ascii (true, false, true, false, false, true, true, false)), (String
    ((Ascii (false, false, true, false, true, true, true, false)), (String
    ((Ascii (false, false, false, true, false, true, true, false)), (String
    ((Ascii (true, true, true, true, false, true, true, false)), (String
    ((Ascii (false, false, true, false, false, true, true, false)), (String
    ((Ascii (true, true, false, false, true, true, true, false)),
    EmptyString)))))))))))))), (JObj [])) :: [])))

(** val enc_chain : string -> json -> (binop * json) list -> json **)

let rec enc_chain vk hv = function
| [] ->
  JObj ((vk, hv) :: (((String ((Ascii (true, true, true, true, false, true,
    true, false)), (String ((Ascii (false, false, false, false, true, true,
    true, false)), (String ((Ascii (true, false, true, false, false, true,
    true, false)), (String ((Ascii (false, true, false, false, true, true,
    true, false)), (String ((Ascii (true, false, false, false, false, true,
    true, false)), (String ((Ascii (false, false, true, false, true, true,
    true, false)), (String ((Ascii (true, false, false, true, false, true,
    true, false)), (String ((Ascii (true, true, true, true, false, true,
    true, false)), (String ((Ascii (false, true, true, true, false, true,
    true, false)), EmptyString)))))))))))))))))), JNull) :: []))
| p :: l' ->
  let (op, v) = p in
  JObj ((vk, hv) :: (((String ((Ascii (true, true, true, true, false, true,
  true, false)), (String ((Ascii (false, false, false, false, true, true,
  true, false)), (String ((Ascii (true, false, true, false, false, true,
  true, false)), (String ((Ascii (false, true, false, false, true, true,
  true, false)), (String ((Ascii (true, false, false, false, false, true,
  true, false)), (String ((Ascii (false, false, true, false, true, true,
  true, false)), (String ((Ascii (true, false, false, true, false, true,
  true, false)), (String ((Ascii (true, true, true, true, false, true, true,
  false)), (String ((Ascii (false, true, true, true, false, true, true,
  false)), EmptyString)))))))))))))))))), (JArr
  ((enc_binop op) :: ((enc_chain vk v l') :: [])))) :: []))

(** val enc_cval : cval -> json **)

let enc_cval = function
| CConst x ->
  tagc (String ((Ascii (true, true, false, false, false, false, true,
    false)), (String ((Ascii (true, true, true, true, false, true, true,
    false)), (String ((Ascii (false, true, true, true, false, true, true,
    false)), (String ((Ascii (true, true, false, false, true, true, true,
    false)), (String ((Ascii (false, false, true, false, true, true, true,
    false)), (String ((Ascii (true, false, false, false, false, true, true,
    false)), (String ((Ascii (false, true, true, true, false, true, true,
    false)), (String ((Ascii (false, false, true, false, true, true, true,
    false)), EmptyString)))))))))))))))) (enc_ident x)
| CVal v ->
  tagc (String ((Ascii (false, true, true, false, true, false, true, false)),
    (String ((Ascii (true, false, false, false, false, true, true, false)),
    (String ((Ascii (false, false, true, true, false, true, true, false)),
    (String ((Ascii (true, false, true, false, true, true, true, false)),
    (String ((Ascii (true, false, true, false, false, true, true, false)),
    EmptyString)))))))))) (enc_prim_val v)

(** val enc_cexpr : cexpr -> json **)

let enc_cexpr e =
  enc_chain (String ((Ascii (false, true, true, false, true, true, true,
    false)), (String ((Ascii (true, false, false, false, false, true, true,
    false)), (String ((Ascii (false, false, true, true, false, true, true,
    false)), (String ((Ascii (true, false, true, false, true, true, true,
    false)), (String ((Ascii (true, false, true, false, false, true, true,
    false)), EmptyString)))))))))) (enc_cval e.ce_head)
    (map (fun p -> ((fst p), (enc_cval (snd p)))) e.ce_rest)

(** val genc_expr : (ast_ty -> json) -> expr -> json **)

let genc_expr ext_enc =
  let rec genc_expr0 = function
  | Expr (v, rest) ->
    enc_chain (String ((Ascii (true, false, true, false, false, true, true,
      false)), (String ((Ascii (false, false, false, true, true, true, true,
      false)), (String ((Ascii (false, false, false, false, true, true, true,
      false)), (String ((Ascii (false, true, false, false, true, true, true,
      false)), (String ((Ascii (true, false, true, false, false, true, true,
      false)), (String ((Ascii (true, true, false, false, true, true, true,
      false)), (String ((Ascii (true, true, false, false, true, true, true,
      false)), (String ((Ascii (true, false, false, true, false, true, true,
      false)), (String ((Ascii (true, true, true, true, false, true, true,
      false)), (String ((Ascii (false, true, true, true, false, true, true,
      false)), (String ((Ascii (true, true, true, true, true, false, true,
      false)), (String ((Ascii (false, true, true, false, true, true, true,
      false)), (String ((Ascii (true, false, false, false, false, true, true,
      false)), (String ((Ascii (false, false, true, true, false, true, true,
      false)), (String ((Ascii (true, false, true, false, true, true, true,
      false)), (String ((Ascii (true, false, true, false, false, true, true,
      false)), EmptyString)))))))))))))))))))))))))))))))) (genc_val v)
      (map (fun p -> let (op, v') = p in (op, (genc_val v'))) rest)
  and genc_val = function
  | EVName x ->
    tagc (String ((Ascii (false, true, true, false, true, false, true,
      false)), (String ((Ascii (true, false, false, false, false, true, true,
      false)), (String ((Ascii (false, false, true, true, false, true, true,
      false)), (String ((Ascii (true, false, true, false, true, true, true,
      false)), (String ((Ascii (true, false, true, false, false, true, true,
      false)), (String ((Ascii (false, true, true, true, false, false, true,
      false)), (String ((Ascii (true, false, false, false, false, true, true,
      false)), (String ((Ascii (true, false, true, true, false, true, true,
      false)), (String ((Ascii (true, false, true, false, false, true, true,
      false)), EmptyString)))))))))))))))))) (enc_ident x)
  | EVPrim p ->
    tagc (String ((Ascii (false, false, false, false, true, false, true,
      false)), (String ((Ascii (false, true, false, false, true, true, true,
      false)), (String ((Ascii (true, false, false, true, false, true, true,
      false)), (String ((Ascii (true, false, true, true, false, true, true,
      false)), (String ((Ascii (true, false, false, true, false, true, true,
      false)), (String ((Ascii (false, false, true, false, true, true, true,
      false)), (String ((Ascii (true, false, false, true, false, true, true,
      false)), (String ((Ascii (false, true, true, false, true, true, true,
      false)), (String ((Ascii (true, false, true, false, false, true, true,
      false)), (String ((Ascii (false, true, true, false, true, false, true,
      false)), (String ((Ascii (true, false, false, false, false, true, true,
      false)), (String ((Ascii (false, false, true, true, false, true, true,
      false)), (String ((Ascii (true, false, true, false, true, true, true,
      false)), (String ((Ascii (true, false, true, false, false, true, true,
      false)), EmptyString)))))))))))))))))))))))))))) (enc_prim_val p)
  | EVCall (f, args) ->
    tagc (String ((Ascii (false, true, true, false, false, false, true,
      false)), (String ((Ascii (true, false, true, false, true, true, true,
      false)), (String ((Ascii (false, true, true, true, false, true, true,
      false)), (String ((Ascii (true, true, false, false, false, true, true,
      false)), (String ((Ascii (false, false, true, false, true, true, true,
      false)), (String ((Ascii (true, false, false, true, false, true, true,
      false)), (String ((Ascii (true, true, true, true, false, true, true,
      false)), (String ((Ascii (false, true, true, true, false, true, true,
      false)), (String ((Ascii (true, true, false, false, false, false, true,
      false)), (String ((Ascii (true, false, false, false, false, true, true,
      false)), (String ((Ascii (false, false, true, true, false, true, true,
      false)), (String ((Ascii (false, false, true, true, false, true, true,
      false)), EmptyString)))))))))))))))))))))))) (JObj (((String ((Ascii
      (false, true, true, true, false, true, true, false)), (String ((Ascii
      (true, false, false, false, false, true, true, false)), (String ((Ascii
      (true, false, true, true, false, true, true, false)), (String ((Ascii
      (true, false, true, false, false, true, true, false)),
      EmptyString)))))))), (enc_ident f)) :: (((String ((Ascii (false, false,
      false, false, true, true, true, false)), (String ((Ascii (true, false,
      false, false, false, true, true, false)), (String ((Ascii (false, true,
      false, false, true, true, true, false)), (String ((Ascii (true, false,
      false, false, false, true, true, false)), (String ((Ascii (true, false,
      true, true, false, true, true, false)), (String ((Ascii (true, false,
      true, false, false, true, true, false)), (String ((Ascii (false, false,
      true, false, true, true, true, false)), (String ((Ascii (true, false,
      true, false, false, true, true, false)), (String ((Ascii (false, true,
      false, false, true, true, true, false)), (String ((Ascii (true, true,
      false, false, true, true, true, false)),
      EmptyString)))))))))))))))))))), (JArr (map genc_expr0 args))) :: [])))
  | EVField (x, a) ->
    tagc (String ((Ascii (true, true, false, false, true, false, true,
      false)), (String ((Ascii (false, false, true, false, true, true, true,
      false)), (String ((Ascii (false, true, false, false, true, true, true,
      false)), (String ((Ascii (true, false, true, false, true, true, true,
      false)), (String ((Ascii (true, true, false, false, false, true, true,
      false)), (String ((Ascii (false, false, true, false, true, true, true,
      false)), (String ((Ascii (false, true, true, false, true, false, true,
      false)), (String ((Ascii (true, false, false, false, false, true, true,
      false)), (String ((Ascii (false, false, true, true, false, true, true,
      false)), (String ((Ascii (true, false, true, false, true, true, true,
      false)), (String ((Ascii (true, false, true, false, false, true, true,
      false)), EmptyString)))))))))))))))))))))) (JObj (((String ((Ascii
      (false, true, true, true, false, true, true, false)), (String ((Ascii
      (true, false, false, false, false, true, true, false)), (String ((Ascii
      (true, false, true, true, false, true, true, false)), (String ((Ascii
      (true, false, true, false, false, true, true, false)),
      EmptyString)))))))), (enc_ident x)) :: (((String ((Ascii (true, false,
      false, false, false, true, true, false)), (String ((Ascii (false,
      false, true, false, true, true, true, false)), (String ((Ascii (false,
      false, true, false, true, true, true, false)), (String ((Ascii (false,
      true, false, false, true, true, true, false)), (String ((Ascii (true,
      false, false, true, false, true, true, false)), (String ((Ascii (false,
      true, false, false, false, true, true, false)), (String ((Ascii (true,
      false, true, false, true, true, true, false)), (String ((Ascii (false,
      false, true, false, true, true, true, false)), (String ((Ascii (true,
      false, true, false, false, true, true, false)),
      EmptyString)))))))))))))))))), (enc_ident a)) :: [])))
  | EVSub e ->
    tagc (String ((Ascii (true, false, true, false, false, false, true,
      false)), (String ((Ascii (false, false, false, true, true, true, true,
      false)), (String ((Ascii (false, false, false, false, true, true, true,
      false)), (String ((Ascii (false, true, false, false, true, true, true,
      false)), (String ((Ascii (true, false, true, false, false, true, true,
      false)), (String ((Ascii (true, true, false, false, true, true, true,
      false)), (String ((Ascii (true, true, false, false, true, true, true,
      false)), (String ((Ascii (true, false, false, true, false, true, true,
      false)), (String ((Ascii (true, true, true, true, false, true, true,
      false)), (String ((Ascii (false, true, true, true, false, true, true,
      false)), EmptyString)))))))))))))))))))) (genc_expr0 e)
  | EVExt (t, tag) ->
    tagc (String ((Ascii (true, false, true, false, false, false, true,
      false)), (String ((Ascii (false, false, false, true, true, true, true,
      false)), (String ((Ascii (false, false, true, false, true, true, true,
      false)), (String ((Ascii (true, false, true, false, false, true, true,
      false)), (String ((Ascii (false, true, true, true, false, true, true,
      false)), (String ((Ascii (false, false, true, false, false, true, true,
      false)), (String ((Ascii (true, false, true, false, false, true, true,
      false)), (String ((Ascii (false, false, true, false, false, true, true,
      false)), (String ((Ascii (true, false, true, false, false, false, true,
      false)), (String ((Ascii (false, false, false, true, true, true, true,
      false)), (String ((Ascii (false, false, false, false, true, true, true,
      false)), (String ((Ascii (false, true, false, false, true, true, true,
      false)), (String ((Ascii (true, false, true, false, false, true, true,
      false)), (String ((Ascii (true, true, false, false, true, true, true,
      false)), (String ((Ascii (true, true, false, false, true, true, true,
      false)), (String ((Ascii (true, false, false, true, false, true, true,
      false)), (String ((Ascii (true, true, true, true, false, true, true,
      false)), (String ((Ascii (false, true, true, true, false, true, true,
      false)), EmptyString)))))))))))))))))))))))))))))))))))) (JObj
      (((String ((Ascii (false, false, true, false, true, true, true,
      false)), (String ((Ascii (true, false, false, true, true, true, true,
      false)), EmptyString)))), (ext_enc t)) :: (((String ((Ascii (false,
      false, true, false, true, true, true, false)), (String ((Ascii (true,
      false, false, false, false, true, true, false)), (String ((Ascii (true,
      true, true, false, false, true, true, false)), EmptyString)))))),
      (enc_N tag)) :: [])))
  in genc_expr0

(** val genc_lcond : (ast_ty -> json) -> lcond -> json **)

let rec genc_lcond ext_enc = function
| LC (l, op, r, next) ->
  JObj (((String ((Ascii (false, false, true, true, false, true, true,
    false)), (String ((Ascii (true, false, true, false, false, true, true,
    false)), (String ((Ascii (false, true, true, false, false, true, true,
    false)), (String ((Ascii (false, false, true, false, true, true, true,
    false)), EmptyString)))))))), (JObj (((String ((Ascii (false, false,
    true, true, false, true, true, false)), (String ((Ascii (true, false,
    true, false, false, true, true, false)), (String ((Ascii (false, true,
    true, false, false, true, true, false)), (String ((Ascii (false, false,
    true, false, true, true, true, false)), EmptyString)))))))),
    (genc_expr ext_enc l)) :: (((String ((Ascii (true, true, false, false,
    false, true, true, false)), (String ((Ascii (true, true, true, true,
    false, true, true, false)), (String ((Ascii (false, true, true, true,
    false, true, true, false)), (String ((Ascii (false, false, true, false,
    false, true, true, false)), (String ((Ascii (true, false, false, true,
    false, true, true, false)), (String ((Ascii (false, false, true, false,
    true, true, true, false)), (String ((Ascii (true, false, false, true,
    false, true, true, false)), (String ((Ascii (true, true, true, true,
    false, true, true, false)), (String ((Ascii (false, true, true, true,
    false, true, true, false)), EmptyString)))))))))))))))))),
    (enc_cmpop op)) :: (((String ((Ascii (false, true, false, false, true,
    true, true, false)), (String ((Ascii (true, false, false, true, false,
    true, true, false)), (String ((Ascii (true, true, true, false, false,
    true, true, false)), (String ((Ascii (false, false, false, true, false,
    true, true, false)), (String ((Ascii (false, false, true, false, true,
    true, true, false)), EmptyString)))))))))),
    (genc_expr ext_enc r)) :: []))))) :: (((String ((Ascii (false, true,
    false, false, true, true, true, false)), (String ((Ascii (true, false,
    false, true, false, true, true, false)), (String ((Ascii (true, true,
    true, false, false, true, true, false)), (String ((Ascii (false, false,
    false, true, false, true, true, false)), (String ((Ascii (false, false,
    true, false, true, true, true, false)), EmptyString)))))))))),
    (match next with
     | Some p ->
       let (lop, c') = p in
       JArr ((enc_logicop lop) :: ((genc_lcond ext_enc c') :: []))
     | None -> JNull)) :: []))

(** val genc_cond : (ast_ty -> json) -> cond -> json **)

let genc_cond ext_enc = function
| CSingle e ->
  tagc (String ((Ascii (true, true, false, false, true, false, true, false)),
    (String ((Ascii (true, false, false, true, false, true, true, false)),
    (String ((Ascii (false, true, true, true, false, true, true, false)),
    (String ((Ascii (true, true, true, false, false, true, true, false)),
    (String ((Ascii (false, false, true, true, false, true, true, false)),
    (String ((Ascii (true, false, true, false, false, true, true, false)),
    EmptyString)))))))))))) (genc_expr ext_enc e)
| CLogic l ->
  tagc (String ((Ascii (false, false, true, true, false, false, true,
    false)), (String ((Ascii (true, true, true, true, false, true, true,
    false)), (String ((Ascii (true, true, true, false, false, true, true,
    false)), (String ((Ascii (true, false, false, true, false, true, true,
    false)), (String ((Ascii (true, true, false, false, false, true, true,
    false)), EmptyString)))))))))) (genc_lcond ext_enc l)

(** val genc_stmt : (ast_ty -> json) -> stmt -> json **)

let genc_stmt ext_enc =
  let rec genc_stmt0 = function
  | SLet (x, m0, ty, e) ->
    tagc (String ((Ascii (false, false, true, true, false, false, true,
      false)), (String ((Ascii (true, false, true, false, false, true, true,
      false)), (String ((Ascii (false, false, true, false, true, true, true,
      false)), (String ((Ascii (false, true, false, false, false, false,
      true, false)), (String ((Ascii (true, false, false, true, false, true,
      true, false)), (String ((Ascii (false, true, true, true, false, true,
      true, false)), (String ((Ascii (false, false, true, false, false, true,
      true, false)), (String ((Ascii (true, false, false, true, false, true,
      true, false)), (String ((Ascii (false, true, true, true, false, true,
      true, false)), (String ((Ascii (true, true, true, false, false, true,
      true, false)), EmptyString)))))))))))))))))))) (JObj (((String ((Ascii
      (false, false, true, false, true, true, true, false)), (String ((Ascii
      (true, false, false, true, true, true, true, false)), (String ((Ascii
      (false, false, false, false, true, true, true, false)), (String ((Ascii
      (true, false, true, false, false, true, true, false)),
      EmptyString)))))))), (JStr (String ((Ascii (false, false, true, true,
      false, false, true, false)), (String ((Ascii (true, false, true, false,
      false, true, true, false)), (String ((Ascii (false, false, true, false,
      true, true, true, false)), (String ((Ascii (false, true, false, false,
      false, false, true, false)), (String ((Ascii (true, false, false, true,
      false, true, true, false)), (String ((Ascii (false, true, true, true,
      false, true, true, false)), (String ((Ascii (false, false, true, false,
      false, true, true, false)), (String ((Ascii (true, false, false, true,
      false, true, true, false)), (String ((Ascii (false, true, true, true,
      false, true, true, false)), (String ((Ascii (true, true, true, false,
      false, true, true, false)),
      EmptyString)))))))))))))))))))))) :: (((String ((Ascii (false, true,
      true, true, false, true, true, false)), (String ((Ascii (true, false,
      false, false, false, true, true, false)), (String ((Ascii (true, false,
      true, true, false, true, true, false)), (String ((Ascii (true, false,
      true, false, false, true, true, false)), EmptyString)))))))),
      (enc_ident x)) :: (((String ((Ascii (true, false, true, true, false,
      true, true, false)), (String ((Ascii (true, false, true, false, true,
      true, true, false)), (String ((Ascii (false, false, true, false, true,
      true, true, false)), (String ((Ascii (true, false, false, false, false,
      true, true, false)), (String ((Ascii (false, true, false, false, false,
      true, true, false)), (String ((Ascii (false, false, true, true, false,
      true, true, false)), (String ((Ascii (true, false, true, false, false,
      true, true, false)), EmptyString)))))))))))))), (JBool
      m0)) :: (((String ((Ascii (false, true, true, false, true, true, true,
      false)), (String ((Ascii (true, false, false, false, false, true, true,
      false)), (String ((Ascii (false, false, true, true, false, true, true,
      false)), (String ((Ascii (true, false, true, false, true, true, true,
      false)), (String ((Ascii (true, false, true, false, false, true, true,
      false)), (String ((Ascii (true, true, true, true, true, false, true,
      false)), (String ((Ascii (false, false, true, false, true, true, true,
      false)), (String ((Ascii (true, false, false, true, true, true, true,
      false)), (String ((Ascii (false, false, false, false, true, true, true,
      false)), (String ((Ascii (true, false, true, false, false, true, true,
      false)), EmptyString)))))))))))))))))))),
      (enc_opt enc_ast_ty ty)) :: (((String ((Ascii (false, true, true,
      false, true, true, true, false)), (String ((Ascii (true, false, false,
      false, false, true, true, false)), (String ((Ascii (false, false, true,
      true, false, true, true, false)), (String ((Ascii (true, false, true,
      false, true, true, true, false)), (String ((Ascii (true, false, true,
      false, false, true, true, false)), EmptyString)))))))))),
      (genc_expr ext_enc e)) :: []))))))
  | SBind (x, e) ->
    tagc (String ((Ascii (false, true, false, false, false, false, true,
      false)), (String ((Ascii (true, false, false, true, false, true, true,
      false)), (String ((Ascii (false, true, true, true, false, true, true,
      false)), (String ((Ascii (false, false, true, false, false, true, true,
      false)), (String ((Ascii (true, false, false, true, false, true, true,
      false)), (String ((Ascii (false, true, true, true, false, true, true,
      false)), (String ((Ascii (true, true, true, false, false, true, true,
      false)), EmptyString)))))))))))))) (JObj (((String ((Ascii (false,
      true, true, true, false, true, true, false)), (String ((Ascii (true,
      false, false, false, false, true, true, false)), (String ((Ascii (true,
      false, true, true, false, true, true, false)), (String ((Ascii (true,
      false, true, false, false, true, true, false)), EmptyString)))))))),
      (enc_ident x)) :: (((String ((Ascii (false, true, true, false, true,
      true, true, false)), (String ((Ascii (true, false, false, false, false,
      true, true, false)), (String ((Ascii (false, false, true, true, false,
      true, true, false)), (String ((Ascii (true, false, true, false, true,
      true, true, false)), (String ((Ascii (true, false, true, false, false,
      true, true, false)), EmptyString)))))))))),
      (genc_expr ext_enc e)) :: [])))
  | SCall (f, args) ->
    tagc (String ((Ascii (false, true, true, false, false, false, true,
      false)), (String ((Ascii (true, false, true, false, true, true, true,
      false)), (String ((Ascii (false, true, true, true, false, true, true,
      false)), (String ((Ascii (true, true, false, false, false, true, true,
      false)), (String ((Ascii (false, false, true, false, true, true, true,
      false)), (String ((Ascii (true, false, false, true, false, true, true,
      false)), (String ((Ascii (true, true, true, true, false, true, true,
      false)), (String ((Ascii (false, true, true, true, false, true, true,
      false)), (String ((Ascii (true, true, false, false, false, false, true,
      false)), (String ((Ascii (true, false, false, false, false, true, true,
      false)), (String ((Ascii (false, false, true, true, false, true, true,
      false)), (String ((Ascii (false, false, true, true, false, true, true,
      false)), EmptyString)))))))))))))))))))))))) (JObj (((String ((Ascii
      (false, true, true, true, false, true, true, false)), (String ((Ascii
      (true, false, false, false, false, true, true, false)), (String ((Ascii
      (true, false, true, true, false, true, true, false)), (String ((Ascii
      (true, false, true, false, false, true, true, false)),
      EmptyString)))))))), (enc_ident f)) :: (((String ((Ascii (false, false,
      false, false, true, true, true, false)), (String ((Ascii (true, false,
      false, false, false, true, true, false)), (String ((Ascii (false, true,
      false, false, true, true, true, false)), (String ((Ascii (true, false,
      false, false, false, true, true, false)), (String ((Ascii (true, false,
      true, true, false, true, true, false)), (String ((Ascii (true, false,
      true, false, false, true, true, false)), (String ((Ascii (false, false,
      true, false, true, true, true, false)), (String ((Ascii (true, false,
      true, false, false, true, true, false)), (String ((Ascii (false, true,
      false, false, true, true, true, false)), (String ((Ascii (true, true,
      false, false, true, true, true, false)),
      EmptyString)))))))))))))))))))), (JArr
      (map (genc_expr ext_enc) args))) :: [])))
  | SIf i ->
    tagc (String ((Ascii (true, false, false, true, false, false, true,
      false)), (String ((Ascii (false, true, true, false, false, true, true,
      false)), EmptyString)))) (genc_if i)
  | SLoop body ->
    tagc (String ((Ascii (false, false, true, true, false, false, true,
      false)), (String ((Ascii (true, true, true, true, false, true, true,
      false)), (String ((Ascii (true, true, true, true, false, true, true,
      false)), (String ((Ascii (false, false, false, false, true, true, true,
      false)), EmptyString)))))))) (JArr (map genc_stmt0 body))
  | SRet e ->
    tagc (String ((Ascii (false, true, false, false, true, false, true,
      false)), (String ((Ascii (true, false, true, false, false, true, true,
      false)), (String ((Ascii (false, false, true, false, true, true, true,
      false)), (String ((Ascii (true, false, true, false, true, true, true,
      false)), (String ((Ascii (false, true, false, false, true, true, true,
      false)), (String ((Ascii (false, true, true, true, false, true, true,
      false)), EmptyString)))))))))))) (genc_expr ext_enc e)
  | SExprStmt e ->
    tagc (String ((Ascii (true, false, true, false, false, false, true,
      false)), (String ((Ascii (false, false, false, true, true, true, true,
      false)), (String ((Ascii (false, false, false, false, true, true, true,
      false)), (String ((Ascii (false, true, false, false, true, true, true,
      false)), (String ((Ascii (true, false, true, false, false, true, true,
      false)), (String ((Ascii (true, true, false, false, true, true, true,
      false)), (String ((Ascii (true, true, false, false, true, true, true,
      false)), (String ((Ascii (true, false, false, true, false, true, true,
      false)), (String ((Ascii (true, true, true, true, false, true, true,
      false)), (String ((Ascii (false, true, true, true, false, true, true,
      false)), EmptyString)))))))))))))))))))) (genc_expr ext_enc e)
  | SBreak ->
    tag0 (String ((Ascii (false, true, false, false, false, false, true,
      false)), (String ((Ascii (false, true, false, false, true, true, true,
      false)), (String ((Ascii (true, false, true, false, false, true, true,
      false)), (String ((Ascii (true, false, false, false, false, true, true,
      false)), (String ((Ascii (true, true, false, true, false, true, true,
      false)), EmptyString))))))))))
  | SContinue ->
    tag0 (String ((Ascii (true, true, false, false, false, false, true,
      false)), (String ((Ascii (true, true, true, true, false, true, true,
      false)), (String ((Ascii (false, true, true, true, false, true, true,
      false)), (String ((Ascii (false, false, true, false, true, true, true,
      false)), (String ((Ascii (true, false, false, true, false, true, true,
      false)), (String ((Ascii (false, true, true, true, false, true, true,
      false)), (String ((Ascii (true, false, true, false, true, true, true,
      false)), (String ((Ascii (true, false, true, false, false, true, true,
      false)), EmptyString))))))))))))))))
  and genc_if = function
  | IfS (c, body, els, elif) ->
    JObj (((String ((Ascii (true, true, false, false, false, true, true,
      false)), (String ((Ascii (true, true, true, true, false, true, true,
      false)), (String ((Ascii (false, true, true, true, false, true, true,
      false)), (String ((Ascii (false, false, true, false, false, true, true,
      false)), (String ((Ascii (true, false, false, true, false, true, true,
      false)), (String ((Ascii (false, false, true, false, true, true, true,
      false)), (String ((Ascii (true, false, false, true, false, true, true,
      false)), (String ((Ascii (true, true, true, true, false, true, true,
      false)), (String ((Ascii (false, true, true, true, false, true, true,
      false)), EmptyString)))))))))))))))))),
      (genc_cond ext_enc c)) :: (((String ((Ascii (false, true, false, false,
      false, true, true, false)), (String ((Ascii (true, true, true, true,
      false, true, true, false)), (String ((Ascii (false, false, true, false,
      false, true, true, false)), (String ((Ascii (true, false, false, true,
      true, true, true, false)), EmptyString)))))))),
      (genc_ifbody body)) :: (((String ((Ascii (true, false, true, false,
      false, true, true, false)), (String ((Ascii (false, false, true, true,
      false, true, true, false)), (String ((Ascii (true, true, false, false,
      true, true, true, false)), (String ((Ascii (true, false, true, false,
      false, true, true, false)), (String ((Ascii (true, true, true, true,
      true, false, true, false)), (String ((Ascii (true, true, false, false,
      true, true, true, false)), (String ((Ascii (false, false, true, false,
      true, true, true, false)), (String ((Ascii (true, false, false, false,
      false, true, true, false)), (String ((Ascii (false, false, true, false,
      true, true, true, false)), (String ((Ascii (true, false, true, false,
      false, true, true, false)), (String ((Ascii (true, false, true, true,
      false, true, true, false)), (String ((Ascii (true, false, true, false,
      false, true, true, false)), (String ((Ascii (false, true, true, true,
      false, true, true, false)), (String ((Ascii (false, false, true, false,
      true, true, true, false)), EmptyString)))))))))))))))))))))))))))),
      (match els with
       | Some b -> genc_ifbody b
       | None -> JNull)) :: (((String ((Ascii (true, false, true, false,
      false, true, true, false)), (String ((Ascii (false, false, true, true,
      false, true, true, false)), (String ((Ascii (true, true, false, false,
      true, true, true, false)), (String ((Ascii (true, false, true, false,
      false, true, true, false)), (String ((Ascii (true, true, true, true,
      true, false, true, false)), (String ((Ascii (true, false, false, true,
      false, true, true, false)), (String ((Ascii (false, true, true, false,
      false, true, true, false)), (String ((Ascii (true, true, true, true,
      true, false, true, false)), (String ((Ascii (true, true, false, false,
      true, true, true, false)), (String ((Ascii (false, false, true, false,
      true, true, true, false)), (String ((Ascii (true, false, false, false,
      false, true, true, false)), (String ((Ascii (false, false, true, false,
      true, true, true, false)), (String ((Ascii (true, false, true, false,
      false, true, true, false)), (String ((Ascii (true, false, true, true,
      false, true, true, false)), (String ((Ascii (true, false, true, false,
      false, true, true, false)), (String ((Ascii (false, true, true, true,
      false, true, true, false)), (String ((Ascii (false, false, true, false,
      true, true, true, false)),
      EmptyString)))))))))))))))))))))))))))))))))),
      (match elif with
       | Some i' -> genc_if i'
       | None -> JNull)) :: []))))
  and genc_ifbody = function
  | IBIf ss ->
    tagc (String ((Ascii (true, false, false, true, false, false, true,
      false)), (String ((Ascii (false, true, true, false, false, true, true,
      false)), EmptyString)))) (JArr (map genc_stmt0 ss))
  | IBLoop ss ->
    tagc (String ((Ascii (false, false, true, true, false, false, true,
      false)), (String ((Ascii (true, true, true, true, false, true, true,
      false)), (String ((Ascii (true, true, true, true, false, true, true,
      false)), (String ((Ascii (false, false, false, false, true, true, true,
      false)), EmptyString)))))))) (JArr (map genc_stmt0 ss))
  in genc_stmt0

(** val enc_param : (ident * ast_ty) -> json **)

let enc_param p =
  JObj (((String ((Ascii (false, true, true, true, false, true, true,
    false)), (String ((Ascii (true, false, false, false, false, true, true,
    false)), (String ((Ascii (true, false, true, true, false, true, true,
    false)), (String ((Ascii (true, false, true, false, false, true, true,
    false)), EmptyString)))))))), (enc_ident (fst p))) :: (((String ((Ascii
    (false, false, false, false, true, true, true, false)), (String ((Ascii
    (true, false, false, false, false, true, true, false)), (String ((Ascii
    (false, true, false, false, true, true, true, false)), (String ((Ascii
    (true, false, false, false, false, true, true, false)), (String ((Ascii
    (true, false, true, true, false, true, true, false)), (String ((Ascii
    (true, false, true, false, false, true, true, false)), (String ((Ascii
    (false, false, true, false, true, true, true, false)), (String ((Ascii
    (true, false, true, false, false, true, true, false)), (String ((Ascii
    (false, true, false, false, true, true, true, false)), (String ((Ascii
    (true, true, true, true, true, false, true, false)), (String ((Ascii
    (false, false, true, false, true, true, true, false)), (String ((Ascii
    (true, false, false, true, true, true, true, false)), (String ((Ascii
    (false, false, false, false, true, true, true, false)), (String ((Ascii
    (true, false, true, false, false, true, true, false)),
    EmptyString)))))))))))))))))))))))))))), (enc_ast_ty (snd p))) :: []))

(** val genc_fn : (ast_ty -> json) -> fn_decl -> json **)

let genc_fn ext_enc f =
  JObj (((String ((Ascii (false, true, true, true, false, true, true,
    false)), (String ((Ascii (true, false, false, false, false, true, true,
    false)), (String ((Ascii (true, false, true, true, false, true, true,
    false)), (String ((Ascii (true, false, true, false, false, true, true,
    false)), EmptyString)))))))), (enc_ident f.fn_name)) :: (((String ((Ascii
    (false, false, false, false, true, true, true, false)), (String ((Ascii
    (true, false, false, false, false, true, true, false)), (String ((Ascii
    (false, true, false, false, true, true, true, false)), (String ((Ascii
    (true, false, false, false, false, true, true, false)), (String ((Ascii
    (true, false, true, true, false, true, true, false)), (String ((Ascii
    (true, false, true, false, false, true, true, false)), (String ((Ascii
    (false, false, true, false, true, true, true, false)), (String ((Ascii
    (true, false, true, false, false, true, true, false)), (String ((Ascii
    (false, true, false, false, true, true, true, false)), (String ((Ascii
    (true, true, false, false, true, true, true, false)),
    EmptyString)))))))))))))))))))), (JArr
    (map enc_param f.fn_params))) :: (((String ((Ascii (false, true, false,
    false, true, true, true, false)), (String ((Ascii (true, false, true,
    false, false, true, true, false)), (String ((Ascii (true, true, false,
    false, true, true, true, false)), (String ((Ascii (true, false, true,
    false, true, true, true, false)), (String ((Ascii (false, false, true,
    true, false, true, true, false)), (String ((Ascii (false, false, true,
    false, true, true, true, false)), (String ((Ascii (true, true, true,
    true, true, false, true, false)), (String ((Ascii (false, false, true,
    false, true, true, true, false)), (String ((Ascii (true, false, false,
    true, true, true, true, false)), (String ((Ascii (false, false, false,
    false, true, true, true, false)), (String ((Ascii (true, false, true,
    false, false, true, true, false)), EmptyString)))))))))))))))))))))),
    (enc_ast_ty f.fn_result)) :: (((String ((Ascii (false, true, false,
    false, false, true, true, false)), (String ((Ascii (true, true, true,
    true, false, true, true, false)), (String ((Ascii (false, false, true,
    false, false, true, true, false)), (String ((Ascii (true, false, false,
    true, true, true, true, false)), EmptyString)))))))), (JArr
    (map (genc_stmt ext_enc) f.fn_body))) :: (((String ((Ascii (true, true,
    true, true, true, false, true, false)), (String ((Ascii (true, false,
    true, true, false, true, true, false)), (String ((Ascii (true, false,
    false, false, false, true, true, false)), (String ((Ascii (false, true,
    false, false, true, true, true, false)), (String ((Ascii (true, true,
    false, true, false, true, true, false)), (String ((Ascii (true, false,
    true, false, false, true, true, false)), (String ((Ascii (false, true,
    false, false, true, true, true, false)), EmptyString)))))))))))))),
    JNull) :: [])))))

(** val genc_top : (ast_ty -> json) -> top -> json **)

let genc_top ext_enc = function
| TImport path ->
  tagc (String ((Ascii (true, false, false, true, false, false, true,
    false)), (String ((Ascii (true, false, true, true, false, true, true,
    false)), (String ((Ascii (false, false, false, false, true, true, true,
    false)), (String ((Ascii (true, true, true, true, false, true, true,
    false)), (String ((Ascii (false, true, false, false, true, true, true,
    false)), (String ((Ascii (false, false, true, false, true, true, true,
    false)), EmptyString)))))))))))) (JArr (map enc_ident path))
| TStructDecl (n0, attrs) ->
  tagc (String ((Ascii (false, false, true, false, true, false, true,
    false)), (String ((Ascii (true, false, false, true, true, true, true,
    false)), (String ((Ascii (false, false, false, false, true, true, true,
    false)), (String ((Ascii (true, false, true, false, false, true, true,
    false)), (String ((Ascii (true, true, false, false, true, true, true,
    false)), EmptyString)))))))))) (enc_struct_decl n0 attrs)
| TConst (n0, ty, v) ->
  tagc (String ((Ascii (true, true, false, false, false, false, true,
    false)), (String ((Ascii (true, true, true, true, false, true, true,
    false)), (String ((Ascii (false, true, true, true, false, true, true,
    false)), (String ((Ascii (true, true, false, false, true, true, true,
    false)), (String ((Ascii (false, false, true, false, true, true, true,
    false)), (String ((Ascii (true, false, false, false, false, true, true,
    false)), (String ((Ascii (false, true, true, true, false, true, true,
    false)), (String ((Ascii (false, false, true, false, true, true, true,
    false)), EmptyString)))))))))))))))) (JObj (((String ((Ascii (false,
    true, true, true, false, true, true, false)), (String ((Ascii (true,
    false, false, false, false, true, true, false)), (String ((Ascii (true,
    false, true, true, false, true, true, false)), (String ((Ascii (true,
    false, true, false, false, true, true, false)), EmptyString)))))))),
    (enc_ident n0)) :: (((String ((Ascii (true, true, false, false, false,
    true, true, false)), (String ((Ascii (true, true, true, true, false,
    true, true, false)), (String ((Ascii (false, true, true, true, false,
    true, true, false)), (String ((Ascii (true, true, false, false, true,
    true, true, false)), (String ((Ascii (false, false, true, false, true,
    true, true, false)), (String ((Ascii (true, false, false, false, false,
    true, true, false)), (String ((Ascii (false, true, true, true, false,
    true, true, false)), (String ((Ascii (false, false, true, false, true,
    true, true, false)), (String ((Ascii (true, true, true, true, true,
    false, true, false)), (String ((Ascii (false, false, true, false, true,
    true, true, false)), (String ((Ascii (true, false, false, true, true,
    true, true, false)), (String ((Ascii (false, false, false, false, true,
    true, true, false)), (String ((Ascii (true, false, true, false, false,
    true, true, false)), EmptyString)))))))))))))))))))))))))),
    (enc_ast_ty ty)) :: (((String ((Ascii (true, true, false, false, false,
    true, true, false)), (String ((Ascii (true, true, true, true, false,
    true, true, false)), (String ((Ascii (false, true, true, true, false,
    true, true, false)), (String ((Ascii (true, true, false, false, true,
    true, true, false)), (String ((Ascii (false, false, true, false, true,
    true, true, false)), (String ((Ascii (true, false, false, false, false,
    true, true, false)), (String ((Ascii (false, true, true, true, false,
    true, true, false)), (String ((Ascii (false, false, true, false, true,
    true, true, false)), (String ((Ascii (true, true, true, true, true,
    false, true, false)), (String ((Ascii (false, true, true, false, true,
    true, true, false)), (String ((Ascii (true, false, false, false, false,
    true, true, false)), (String ((Ascii (false, false, true, true, false,
    true, true, false)), (String ((Ascii (true, false, true, false, true,
    true, true, false)), (String ((Ascii (true, false, true, false, false,
    true, true, false)), EmptyString)))))))))))))))))))))))))))),
    (enc_cexpr v)) :: []))))
| TFn f ->
  tagc (String ((Ascii (false, true, true, false, false, false, true,
    false)), (String ((Ascii (true, false, true, false, true, true, true,
    false)), (String ((Ascii (false, true, true, true, false, true, true,
    false)), (String ((Ascii (true, true, false, false, false, true, true,
    false)), (String ((Ascii (false, false, true, false, true, true, true,
    false)), (String ((Ascii (true, false, false, true, false, true, true,
    false)), (String ((Ascii (true, true, true, true, false, true, true,
    false)), (String ((Ascii (false, true, true, true, false, true, true,
    false)), EmptyString)))))))))))))))) (genc_fn ext_enc f)

(** val genc_program : (ast_ty -> json) -> program -> json **)

let genc_program ext_enc p =
  JArr (map (genc_top ext_enc) p)

(** val enc_program : program -> json **)

let enc_program =
  genc_program enc_ast_ty

(** val enc_value : value -> json **)

let enc_value v =
  JObj (((String ((Ascii (true, false, false, true, false, true, true,
    false)), (String ((Ascii (false, true, true, true, false, true, true,
    false)), (String ((Ascii (false, true, true, true, false, true, true,
    false)), (String ((Ascii (true, false, true, false, false, true, true,
    false)), (String ((Ascii (false, true, false, false, true, true, true,
    false)), (String ((Ascii (true, true, true, true, true, false, true,
    false)), (String ((Ascii (false, true, true, true, false, true, true,
    false)), (String ((Ascii (true, false, false, false, false, true, true,
    false)), (String ((Ascii (true, false, true, true, false, true, true,
    false)), (String ((Ascii (true, false, true, false, false, true, true,
    false)), EmptyString)))))))))))))))))))), (JStr v.v_inner)) :: (((String
    ((Ascii (true, false, false, true, false, true, true, false)), (String
    ((Ascii (false, true, true, true, false, true, true, false)), (String
    ((Ascii (false, true, true, true, false, true, true, false)), (String
    ((Ascii (true, false, true, false, false, true, true, false)), (String
    ((Ascii (false, true, false, false, true, true, true, false)), (String
    ((Ascii (true, true, true, true, true, false, true, false)), (String
    ((Ascii (false, false, true, false, true, true, true, false)), (String
    ((Ascii (true, false, false, true, true, true, true, false)), (String
    ((Ascii (false, false, false, false, true, true, true, false)), (String
    ((Ascii (true, false, true, false, false, true, true, false)),
    EmptyString)))))))))))))))))))), (enc_sem_ty v.v_ty)) :: (((String
    ((Ascii (true, false, true, true, false, true, true, false)), (String
    ((Ascii (true, false, true, false, true, true, true, false)), (String
    ((Ascii (false, false, true, false, true, true, true, false)), (String
    ((Ascii (true, false, false, false, false, true, true, false)), (String
    ((Ascii (false, true, false, false, false, true, true, false)), (String
    ((Ascii (false, false, true, true, false, true, true, false)), (String
    ((Ascii (true, false, true, false, false, true, true, false)),
    EmptyString)))))))))))))), (JBool v.v_mut)) :: (((String ((Ascii (true,
    false, false, false, false, true, true, false)), (String ((Ascii (false,
    false, true, true, false, true, true, false)), (String ((Ascii (false,
    false, true, true, false, true, true, false)), (String ((Ascii (true,
    true, true, true, false, true, true, false)), (String ((Ascii (true,
    true, false, false, false, true, true, false)), (String ((Ascii (true,
    false, false, false, false, true, true, false)), EmptyString)))))))))))),
    (JBool false)) :: (((String ((Ascii (true, false, true, true, false,
    true, true, false)), (String ((Ascii (true, false, false, false, false,
    true, true, false)), (String ((Ascii (false, false, true, true, false,
    true, true, false)), (String ((Ascii (false, false, true, true, false,
    true, true, false)), (String ((Ascii (true, true, true, true, false,
    true, true, false)), (String ((Ascii (true, true, false, false, false,
    true, true, false)), EmptyString)))))))))))), (JBool false)) :: [])))))

(** val enc_eres_val : eres_val -> json **)

let enc_eres_val = function
| RReg n0 ->
  tagc (String ((Ascii (false, true, false, false, true, false, true,
    false)), (String ((Ascii (true, false, true, false, false, true, true,
    false)), (String ((Ascii (true, true, true, false, false, true, true,
    false)), (String ((Ascii (true, false, false, true, false, true, true,
    false)), (String ((Ascii (true, true, false, false, true, true, true,
    false)), (String ((Ascii (false, false, true, false, true, true, true,
    false)), (String ((Ascii (true, false, true, false, false, true, true,
    false)), (String ((Ascii (false, true, false, false, true, true, true,
    false)), EmptyString)))))))))))))))) (enc_N n0)
| RPrim p ->
  tagc (String ((Ascii (false, false, false, false, true, false, true,
    false)), (String ((Ascii (false, true, false, false, true, true, true,
    false)), (String ((Ascii (true, false, false, true, false, true, true,
    false)), (String ((Ascii (true, false, true, true, false, true, true,
    false)), (String ((Ascii (true, false, false, true, false, true, true,
    false)), (String ((Ascii (false, false, true, false, true, true, true,
    false)), (String ((Ascii (true, false, false, true, false, true, true,
    false)), (String ((Ascii (false, true, true, false, true, true, true,
    false)), (String ((Ascii (true, false, true, false, false, true, true,
    false)), (String ((Ascii (false, true, true, false, true, false, true,
    false)), (String ((Ascii (true, false, false, false, false, true, true,
    false)), (String ((Ascii (false, false, true, true, false, true, true,
    false)), (String ((Ascii (true, false, true, false, true, true, true,
    false)), (String ((Ascii (true, false, true, false, false, true, true,
    false)), EmptyString)))))))))))))))))))))))))))) (enc_prim_val p)

(** val enc_eres : eres -> json **)

let enc_eres e =
  JObj (((String ((Ascii (true, false, true, false, false, true, true,
    false)), (String ((Ascii (false, false, false, true, true, true, true,
    false)), (String ((Ascii (false, false, false, false, true, true, true,
    false)), (String ((Ascii (false, true, false, false, true, true, true,
    false)), (String ((Ascii (true, true, true, true, true, false, true,
    false)), (String ((Ascii (false, false, true, false, true, true, true,
    false)), (String ((Ascii (true, false, false, true, true, true, true,
    false)), (String ((Ascii (false, false, false, false, true, true, true,
    false)), (String ((Ascii (true, false, true, false, false, true, true,
    false)), EmptyString)))))))))))))))))), (enc_sem_ty e.r_ty)) :: (((String
    ((Ascii (true, false, true, false, false, true, true, false)), (String
    ((Ascii (false, false, false, true, true, true, true, false)), (String
    ((Ascii (false, false, false, false, true, true, true, false)), (String
    ((Ascii (false, true, false, false, true, true, true, false)), (String
    ((Ascii (true, true, true, true, true, false, true, false)), (String
    ((Ascii (false, true, true, false, true, true, true, false)), (String
    ((Ascii (true, false, false, false, false, true, true, false)), (String
    ((Ascii (false, false, true, true, false, true, true, false)), (String
    ((Ascii (true, false, true, false, true, true, true, false)), (String
    ((Ascii (true, false, true, false, false, true, true, false)),
    EmptyString)))))))))))))))))))), (enc_eres_val e.r_val)) :: []))

(** val enc_cval_sem : cval_sem -> json **)

let enc_cval_sem = function
| CCs n0 ->
  tagc (String ((Ascii (true, true, false, false, false, false, true,
    false)), (String ((Ascii (true, true, true, true, false, true, true,
    false)), (String ((Ascii (false, true, true, true, false, true, true,
    false)), (String ((Ascii (true, true, false, false, true, true, true,
    false)), (String ((Ascii (false, false, true, false, true, true, true,
    false)), (String ((Ascii (true, false, false, false, false, true, true,
    false)), (String ((Ascii (false, true, true, true, false, true, true,
    false)), (String ((Ascii (false, false, true, false, true, true, true,
    false)), EmptyString)))))))))))))))) (JStr n0)
| CVs v ->
  tagc (String ((Ascii (false, true, true, false, true, false, true, false)),
    (String ((Ascii (true, false, false, false, false, true, true, false)),
    (String ((Ascii (false, false, true, true, false, true, true, false)),
    (String ((Ascii (true, false, true, false, true, true, true, false)),
    (String ((Ascii (true, false, true, false, false, true, true, false)),
    EmptyString)))))))))) (enc_prim_val v)

(** val enc_const_sem : const_sem -> json **)

let enc_const_sem c =
  JObj (((String ((Ascii (false, true, true, true, false, true, true,
    false)), (String ((Ascii (true, false, false, false, false, true, true,
    false)), (String ((Ascii (true, false, true, true, false, true, true,
    false)), (String ((Ascii (true, false, true, false, false, true, true,
    false)), EmptyString)))))))), (JStr c.c_name)) :: (((String ((Ascii
    (true, true, false, false, false, true, true, false)), (String ((Ascii
    (true, true, true, true, false, true, true, false)), (String ((Ascii
    (false, true, true, true, false, true, true, false)), (String ((Ascii
    (true, true, false, false, true, true, true, false)), (String ((Ascii
    (false, false, true, false, true, true, true, false)), (String ((Ascii
    (true, false, false, false, false, true, true, false)), (String ((Ascii
    (false, true, true, true, false, true, true, false)), (String ((Ascii
    (false, false, true, false, true, true, true, false)), (String ((Ascii
    (true, true, true, true, true, false, true, false)), (String ((Ascii
    (false, false, true, false, true, true, true, false)), (String ((Ascii
    (true, false, false, true, true, true, true, false)), (String ((Ascii
    (false, false, false, false, true, true, true, false)), (String ((Ascii
    (true, false, true, false, false, true, true, false)),
    EmptyString)))))))))))))))))))))))))), (enc_sem_ty c.c_ty)) :: (((String
    ((Ascii (true, true, false, false, false, true, true, false)), (String
    ((Ascii (true, true, true, true, false, true, true, false)), (String
    ((Ascii (false, true, true, true, false, true, true, false)), (String
    ((Ascii (true, true, false, false, true, true, true, false)), (String
    ((Ascii (false, false, true, false, true, true, true, false)), (String
    ((Ascii (true, false, false, false, false, true, true, false)), (String
    ((Ascii (false, true, true, true, false, true, true, false)), (String
    ((Ascii (false, false, true, false, true, true, true, false)), (String
    ((Ascii (true, true, true, true, true, false, true, false)), (String
    ((Ascii (false, true, true, false, true, true, true, false)), (String
    ((Ascii (true, false, false, false, false, true, true, false)), (String
    ((Ascii (false, false, true, true, false, true, true, false)), (String
    ((Ascii (true, false, true, false, true, true, true, false)), (String
    ((Ascii (true, false, true, false, false, true, true, false)),
    EmptyString)))))))))))))))))))))))))))),
    (enc_chain (String ((Ascii (false, true, true, false, true, true, true,
      false)), (String ((Ascii (true, false, false, false, false, true, true,
      false)), (String ((Ascii (false, false, true, true, false, true, true,
      false)), (String ((Ascii (true, false, true, false, true, true, true,
      false)), (String ((Ascii (true, false, true, false, false, true, true,
      false)), EmptyString)))))))))) (enc_cval_sem c.c_head)
      (map (fun p -> ((fst p), (enc_cval_sem (snd p)))) c.c_rest))) :: [])))

(** val enc_func_sem : func_sem -> json **)

let enc_func_sem f =
  JObj (((String ((Ascii (true, false, false, true, false, true, true,
    false)), (String ((Ascii (false, true, true, true, false, true, true,
    false)), (String ((Ascii (false, true, true, true, false, true, true,
    false)), (String ((Ascii (true, false, true, false, false, true, true,
    false)), (String ((Ascii (false, true, false, false, true, true, true,
    false)), (String ((Ascii (true, true, true, true, true, false, true,
    false)), (String ((Ascii (false, true, true, true, false, true, true,
    false)), (String ((Ascii (true, false, false, false, false, true, true,
    false)), (String ((Ascii (true, false, true, true, false, true, true,
    false)), (String ((Ascii (true, false, true, false, false, true, true,
    false)), EmptyString)))))))))))))))))))), (JStr f.f_name)) :: (((String
    ((Ascii (true, false, false, true, false, true, true, false)), (String
    ((Ascii (false, true, true, true, false, true, true, false)), (String
    ((Ascii (false, true, true, true, false, true, true, false)), (String
    ((Ascii (true, false, true, false, false, true, true, false)), (String
    ((Ascii (false, true, false, false, true, true, true, false)), (String
    ((Ascii (true, true, true, true, true, false, true, false)), (String
    ((Ascii (false, false, true, false, true, true, true, false)), (String
    ((Ascii (true, false, false, true, true, true, true, false)), (String
    ((Ascii (false, false, false, false, true, true, true, false)), (String
    ((Ascii (true, false, true, false, false, true, true, false)),
    EmptyString)))))))))))))))))))), (enc_sem_ty f.f_ty)) :: (((String
    ((Ascii (false, false, false, false, true, true, true, false)), (String
    ((Ascii (true, false, false, false, false, true, true, false)), (String
    ((Ascii (false, true, false, false, true, true, true, false)), (String
    ((Ascii (true, false, false, false, false, true, true, false)), (String
    ((Ascii (true, false, true, true, false, true, true, false)), (String
    ((Ascii (true, false, true, false, false, true, true, false)), (String
    ((Ascii (false, false, true, false, true, true, true, false)), (String
    ((Ascii (true, false, true, false, false, true, true, false)), (String
    ((Ascii (false, true, false, false, true, true, true, false)), (String
    ((Ascii (true, true, false, false, true, true, true, false)),
    EmptyString)))))))))))))))))))), (JArr
    (map enc_sem_ty f.f_params))) :: [])))

(** val enc_instr : instr -> json **)

let enc_instr = function
| IExprValue (v, r) ->
  tagc (String ((Ascii (true, false, true, false, false, false, true,
    false)), (String ((Ascii (false, false, false, true, true, true, true,
    false)), (String ((Ascii (false, false, false, false, true, true, true,
    false)), (String ((Ascii (false, true, false, false, true, true, true,
    false)), (String ((Ascii (true, false, true, false, false, true, true,
    false)), (String ((Ascii (true, true, false, false, true, true, true,
    false)), (String ((Ascii (true, true, false, false, true, true, true,
    false)), (String ((Ascii (true, false, false, true, false, true, true,
    false)), (String ((Ascii (true, true, true, true, false, true, true,
    false)), (String ((Ascii (false, true, true, true, false, true, true,
    false)), (String ((Ascii (false, true, true, false, true, false, true,
    false)), (String ((Ascii (true, false, false, false, false, true, true,
    false)), (String ((Ascii (false, false, true, true, false, true, true,
    false)), (String ((Ascii (true, false, true, false, true, true, true,
    false)), (String ((Ascii (true, false, true, false, false, true, true,
    false)), EmptyString)))))))))))))))))))))))))))))) (JObj (((String
    ((Ascii (true, false, true, false, false, true, true, false)), (String
    ((Ascii (false, false, false, true, true, true, true, false)), (String
    ((Ascii (false, false, false, false, true, true, true, false)), (String
    ((Ascii (false, true, false, false, true, true, true, false)), (String
    ((Ascii (true, false, true, false, false, true, true, false)), (String
    ((Ascii (true, true, false, false, true, true, true, false)), (String
    ((Ascii (true, true, false, false, true, true, true, false)), (String
    ((Ascii (true, false, false, true, false, true, true, false)), (String
    ((Ascii (true, true, true, true, false, true, true, false)), (String
    ((Ascii (false, true, true, true, false, true, true, false)),
    EmptyString)))))))))))))))))))), (enc_value v)) :: (((String ((Ascii
    (false, true, false, false, true, true, true, false)), (String ((Ascii
    (true, false, true, false, false, true, true, false)), (String ((Ascii
    (true, true, true, false, false, true, true, false)), (String ((Ascii
    (true, false, false, true, false, true, true, false)), (String ((Ascii
    (true, true, false, false, true, true, true, false)), (String ((Ascii
    (false, false, true, false, true, true, true, false)), (String ((Ascii
    (true, false, true, false, false, true, true, false)), (String ((Ascii
    (false, true, false, false, true, true, true, false)), (String ((Ascii
    (true, true, true, true, true, false, true, false)), (String ((Ascii
    (false, true, true, true, false, true, true, false)), (String ((Ascii
    (true, false, true, false, true, true, true, false)), (String ((Ascii
    (true, false, true, true, false, true, true, false)), (String ((Ascii
    (false, true, false, false, false, true, true, false)), (String ((Ascii
    (true, false, true, false, false, true, true, false)), (String ((Ascii
    (false, true, false, false, true, true, true, false)),
    EmptyString)))))))))))))))))))))))))))))), (enc_N r)) :: [])))
| IExprConst (c, r) ->
  tagc (String ((Ascii (true, false, true, false, false, false, true,
    false)), (String ((Ascii (false, false, false, true, true, true, true,
    false)), (String ((Ascii (false, false, false, false, true, true, true,
    false)), (String ((Ascii (false, true, false, false, true, true, true,
    false)), (String ((Ascii (true, false, true, false, false, true, true,
    false)), (String ((Ascii (true, true, false, false, true, true, true,
    false)), (String ((Ascii (true, true, false, false, true, true, true,
    false)), (String ((Ascii (true, false, false, true, false, true, true,
    false)), (String ((Ascii (true, true, true, true, false, true, true,
    false)), (String ((Ascii (false, true, true, true, false, true, true,
    false)), (String ((Ascii (true, true, false, false, false, false, true,
    false)), (String ((Ascii (true, true, true, true, false, true, true,
    false)), (String ((Ascii (false, true, true, true, false, true, true,
    false)), (String ((Ascii (true, true, false, false, true, true, true,
    false)), (String ((Ascii (false, false, true, false, true, true, true,
    false)), EmptyString)))))))))))))))))))))))))))))) (JObj (((String
    ((Ascii (true, false, true, false, false, true, true, false)), (String
    ((Ascii (false, false, false, true, true, true, true, false)), (String
    ((Ascii (false, false, false, false, true, true, true, false)), (String
    ((Ascii (false, true, false, false, true, true, true, false)), (String
    ((Ascii (true, false, true, false, false, true, true, false)), (String
    ((Ascii (true, true, false, false, true, true, true, false)), (String
    ((Ascii (true, true, false, false, true, true, true, false)), (String
    ((Ascii (true, false, false, true, false, true, true, false)), (String
    ((Ascii (true, true, true, true, false, true, true, false)), (String
    ((Ascii (false, true, true, true, false, true, true, false)),
    EmptyString)))))))))))))))))))), (enc_const_sem c)) :: (((String ((Ascii
    (false, true, false, false, true, true, true, false)), (String ((Ascii
    (true, false, true, false, false, true, true, false)), (String ((Ascii
    (true, true, true, false, false, true, true, false)), (String ((Ascii
    (true, false, false, true, false, true, true, false)), (String ((Ascii
    (true, true, false, false, true, true, true, false)), (String ((Ascii
    (false, false, true, false, true, true, true, false)), (String ((Ascii
    (true, false, true, false, false, true, true, false)), (String ((Ascii
    (false, true, false, false, true, true, true, false)), (String ((Ascii
    (true, true, true, true, true, false, true, false)), (String ((Ascii
    (false, true, true, true, false, true, true, false)), (String ((Ascii
    (true, false, true, false, true, true, true, false)), (String ((Ascii
    (true, false, true, true, false, true, true, false)), (String ((Ascii
    (false, true, false, false, false, true, true, false)), (String ((Ascii
    (true, false, true, false, false, true, true, false)), (String ((Ascii
    (false, true, false, false, true, true, true, false)),
    EmptyString)))))))))))))))))))))))))))))), (enc_N r)) :: [])))
| IExprStruct (v, idx, r) ->
  tagc (String ((Ascii (true, false, true, false, false, false, true,
    false)), (String ((Ascii (false, false, false, true, true, true, true,
    false)), (String ((Ascii (false, false, false, false, true, true, true,
    false)), (String ((Ascii (false, true, false, false, true, true, true,
    false)), (String ((Ascii (true, false, true, false, false, true, true,
    false)), (String ((Ascii (true, true, false, false, true, true, true,
    false)), (String ((Ascii (true, true, false, false, true, true, true,
    false)), (String ((Ascii (true, false, false, true, false, true, true,
    false)), (String ((Ascii (true, true, true, true, false, true, true,
    false)), (String ((Ascii (false, true, true, true, false, true, true,
    false)), (String ((Ascii (true, true, false, false, true, false, true,
    false)), (String ((Ascii (false, false, true, false, true, true, true,
    false)), (String ((Ascii (false, true, false, false, true, true, true,
    false)), (String ((Ascii (true, false, true, false, true, true, true,
    false)), (String ((Ascii (true, true, false, false, false, true, true,
    false)), (String ((Ascii (false, false, true, false, true, true, true,
    false)), (String ((Ascii (false, true, true, false, true, false, true,
    false)), (String ((Ascii (true, false, false, false, false, true, true,
    false)), (String ((Ascii (false, false, true, true, false, true, true,
    false)), (String ((Ascii (true, false, true, false, true, true, true,
    false)), (String ((Ascii (true, false, true, false, false, true, true,
    false)), EmptyString)))))))))))))))))))))))))))))))))))))))))) (JObj
    (((String ((Ascii (true, false, true, false, false, true, true, false)),
    (String ((Ascii (false, false, false, true, true, true, true, false)),
    (String ((Ascii (false, false, false, false, true, true, true, false)),
    (String ((Ascii (false, true, false, false, true, true, true, false)),
    (String ((Ascii (true, false, true, false, false, true, true, false)),
    (String ((Ascii (true, true, false, false, true, true, true, false)),
    (String ((Ascii (true, true, false, false, true, true, true, false)),
    (String ((Ascii (true, false, false, true, false, true, true, false)),
    (String ((Ascii (true, true, true, true, false, true, true, false)),
    (String ((Ascii (false, true, true, true, false, true, true, false)),
    EmptyString)))))))))))))))))))), (enc_value v)) :: (((String ((Ascii
    (true, false, false, true, false, true, true, false)), (String ((Ascii
    (false, true, true, true, false, true, true, false)), (String ((Ascii
    (false, false, true, false, false, true, true, false)), (String ((Ascii
    (true, false, true, false, false, true, true, false)), (String ((Ascii
    (false, false, false, true, true, true, true, false)),
    EmptyString)))))))))), (enc_N idx)) :: (((String ((Ascii (false, true,
    false, false, true, true, true, false)), (String ((Ascii (true, false,
    true, false, false, true, true, false)), (String ((Ascii (true, true,
    true, false, false, true, true, false)), (String ((Ascii (true, false,
    false, true, false, true, true, false)), (String ((Ascii (true, true,
    false, false, true, true, true, false)), (String ((Ascii (false, false,
    true, false, true, true, true, false)), (String ((Ascii (true, false,
    true, false, false, true, true, false)), (String ((Ascii (false, true,
    false, false, true, true, true, false)), (String ((Ascii (true, true,
    true, true, true, false, true, false)), (String ((Ascii (false, true,
    true, true, false, true, true, false)), (String ((Ascii (true, false,
    true, false, true, true, true, false)), (String ((Ascii (true, false,
    true, true, false, true, true, false)), (String ((Ascii (false, true,
    false, false, false, true, true, false)), (String ((Ascii (true, false,
    true, false, false, true, true, false)), (String ((Ascii (false, true,
    false, false, true, true, true, false)),
    EmptyString)))))))))))))))))))))))))))))), (enc_N r)) :: []))))
| IExprOp (op, l, r, reg) ->
  tagc (String ((Ascii (true, false, true, false, false, false, true,
    false)), (String ((Ascii (false, false, false, true, true, true, true,
    false)), (String ((Ascii (false, false, false, false, true, true, true,
    false)), (String ((Ascii (false, true, false, false, true, true, true,
    false)), (String ((Ascii (true, false, true, false, false, true, true,
    false)), (String ((Ascii (true, true, false, false, true, true, true,
    false)), (String ((Ascii (true, true, false, false, true, true, true,
    false)), (String ((Ascii (true, false, false, true, false, true, true,
    false)), (String ((Ascii (true, true, true, true, false, true, true,
    false)), (String ((Ascii (false, true, true, true, false, true, true,
    false)), (String ((Ascii (true, true, true, true, false, false, true,
    false)), (String ((Ascii (false, false, false, false, true, true, true,
    false)), (String ((Ascii (true, false, true, false, false, true, true,
    false)), (String ((Ascii (false, true, false, false, true, true, true,
    false)), (String ((Ascii (true, false, false, false, false, true, true,
    false)), (String ((Ascii (false, false, true, false, true, true, true,
    false)), (String ((Ascii (true, false, false, true, false, true, true,
    false)), (String ((Ascii (true, true, true, true, false, true, true,
    false)), (String ((Ascii (false, true, true, true, false, true, true,
    false)), EmptyString)))))))))))))))))))))))))))))))))))))) (JObj
    (((String ((Ascii (true, true, true, true, false, true, true, false)),
    (String ((Ascii (false, false, false, false, true, true, true, false)),
    (String ((Ascii (true, false, true, false, false, true, true, false)),
    (String ((Ascii (false, true, false, false, true, true, true, false)),
    (String ((Ascii (true, false, false, false, false, true, true, false)),
    (String ((Ascii (false, false, true, false, true, true, true, false)),
    (String ((Ascii (true, false, false, true, false, true, true, false)),
    (String ((Ascii (true, true, true, true, false, true, true, false)),
    (String ((Ascii (false, true, true, true, false, true, true, false)),
    EmptyString)))))))))))))))))), (enc_binop op)) :: (((String ((Ascii
    (false, false, true, true, false, true, true, false)), (String ((Ascii
    (true, false, true, false, false, true, true, false)), (String ((Ascii
    (false, true, true, false, false, true, true, false)), (String ((Ascii
    (false, false, true, false, true, true, true, false)), (String ((Ascii
    (true, true, true, true, true, false, true, false)), (String ((Ascii
    (false, true, true, false, true, true, true, false)), (String ((Ascii
    (true, false, false, false, false, true, true, false)), (String ((Ascii
    (false, false, true, true, false, true, true, false)), (String ((Ascii
    (true, false, true, false, true, true, true, false)), (String ((Ascii
    (true, false, true, false, false, true, true, false)),
    EmptyString)))))))))))))))))))), (enc_eres l)) :: (((String ((Ascii
    (false, true, false, false, true, true, true, false)), (String ((Ascii
    (true, false, false, true, false, true, true, false)), (String ((Ascii
    (true, true, true, false, false, true, true, false)), (String ((Ascii
    (false, false, false, true, false, true, true, false)), (String ((Ascii
    (false, false, true, false, true, true, true, false)), (String ((Ascii
    (true, true, true, true, true, false, true, false)), (String ((Ascii
    (false, true, true, false, true, true, true, false)), (String ((Ascii
    (true, false, false, false, false, true, true, false)), (String ((Ascii
    (false, false, true, true, false, true, true, false)), (String ((Ascii
    (true, false, true, false, true, true, true, false)), (String ((Ascii
    (true, false, true, false, false, true, true, false)),
    EmptyString)))))))))))))))))))))), (enc_eres r)) :: (((String ((Ascii
    (false, true, false, false, true, true, true, false)), (String ((Ascii
    (true, false, true, false, false, true, true, false)), (String ((Ascii
    (true, true, true, false, false, true, true, false)), (String ((Ascii
    (true, false, false, true, false, true, true, false)), (String ((Ascii
    (true, true, false, false, true, true, true, false)), (String ((Ascii
    (false, false, true, false, true, true, true, false)), (String ((Ascii
    (true, false, true, false, false, true, true, false)), (String ((Ascii
    (false, true, false, false, true, true, true, false)), (String ((Ascii
    (true, true, true, true, true, false, true, false)), (String ((Ascii
    (false, true, true, true, false, true, true, false)), (String ((Ascii
    (true, false, true, false, true, true, true, false)), (String ((Ascii
    (true, false, true, true, false, true, true, false)), (String ((Ascii
    (false, true, false, false, false, true, true, false)), (String ((Ascii
    (true, false, true, false, false, true, true, false)), (String ((Ascii
    (false, true, false, false, true, true, true, false)),
    EmptyString)))))))))))))))))))))))))))))), (enc_N reg)) :: [])))))
| ICall (f, args, r) ->
  tagc (String ((Ascii (true, true, false, false, false, false, true,
    false)), (String ((Ascii (true, false, false, false, false, true, true,
    false)), (String ((Ascii (false, false, true, true, false, true, true,
    false)), (String ((Ascii (false, false, true, true, false, true, true,
    false)), EmptyString)))))))) (JObj (((String ((Ascii (true, true, false,
    false, false, true, true, false)), (String ((Ascii (true, false, false,
    false, false, true, true, false)), (String ((Ascii (false, false, true,
    true, false, true, true, false)), (String ((Ascii (false, false, true,
    true, false, true, true, false)), EmptyString)))))))),
    (enc_func_sem f)) :: (((String ((Ascii (false, false, false, false, true,
    true, true, false)), (String ((Ascii (true, false, false, false, false,
    true, true, false)), (String ((Ascii (false, true, false, false, true,
    true, true, false)), (String ((Ascii (true, false, false, false, false,
    true, true, false)), (String ((Ascii (true, false, true, true, false,
    true, true, false)), (String ((Ascii (true, true, false, false, true,
    true, true, false)), EmptyString)))))))))))), (JArr
    (map enc_eres args))) :: (((String ((Ascii (false, true, false, false,
    true, true, true, false)), (String ((Ascii (true, false, true, false,
    false, true, true, false)), (String ((Ascii (true, true, true, false,
    false, true, true, false)), (String ((Ascii (true, false, false, true,
    false, true, true, false)), (String ((Ascii (true, true, false, false,
    true, true, true, false)), (String ((Ascii (false, false, true, false,
    true, true, true, false)), (String ((Ascii (true, false, true, false,
    false, true, true, false)), (String ((Ascii (false, true, false, false,
    true, true, true, false)), (String ((Ascii (true, true, true, true, true,
    false, true, false)), (String ((Ascii (false, true, true, true, false,
    true, true, false)), (String ((Ascii (true, false, true, false, true,
    true, true, false)), (String ((Ascii (true, false, true, true, false,
    true, true, false)), (String ((Ascii (false, true, false, false, false,
    true, true, false)), (String ((Ascii (true, false, true, false, false,
    true, true, false)), (String ((Ascii (false, true, false, false, true,
    true, true, false)), EmptyString)))))))))))))))))))))))))))))),
    (enc_N r)) :: []))))
| ILet (v, e) ->
  tagc (String ((Ascii (false, false, true, true, false, false, true,
    false)), (String ((Ascii (true, false, true, false, false, true, true,
    false)), (String ((Ascii (false, false, true, false, true, true, true,
    false)), (String ((Ascii (false, true, false, false, false, false, true,
    false)), (String ((Ascii (true, false, false, true, false, true, true,
    false)), (String ((Ascii (false, true, true, true, false, true, true,
    false)), (String ((Ascii (false, false, true, false, false, true, true,
    false)), (String ((Ascii (true, false, false, true, false, true, true,
    false)), (String ((Ascii (false, true, true, true, false, true, true,
    false)), (String ((Ascii (true, true, true, false, false, true, true,
    false)), EmptyString)))))))))))))))))))) (JObj (((String ((Ascii (false,
    false, true, true, false, true, true, false)), (String ((Ascii (true,
    false, true, false, false, true, true, false)), (String ((Ascii (false,
    false, true, false, true, true, true, false)), (String ((Ascii (true,
    true, true, true, true, false, true, false)), (String ((Ascii (false,
    false, true, false, false, true, true, false)), (String ((Ascii (true,
    false, true, false, false, true, true, false)), (String ((Ascii (true,
    true, false, false, false, true, true, false)), (String ((Ascii (false,
    false, true, true, false, true, true, false)),
    EmptyString)))))))))))))))), (enc_value v)) :: (((String ((Ascii (true,
    false, true, false, false, true, true, false)), (String ((Ascii (false,
    false, false, true, true, true, true, false)), (String ((Ascii (false,
    false, false, false, true, true, true, false)), (String ((Ascii (false,
    true, false, false, true, true, true, false)), (String ((Ascii (true,
    true, true, true, true, false, true, false)), (String ((Ascii (false,
    true, false, false, true, true, true, false)), (String ((Ascii (true,
    false, true, false, false, true, true, false)), (String ((Ascii (true,
    true, false, false, true, true, true, false)), (String ((Ascii (true,
    false, true, false, true, true, true, false)), (String ((Ascii (false,
    false, true, true, false, true, true, false)), (String ((Ascii (false,
    false, true, false, true, true, true, false)),
    EmptyString)))))))))))))))))))))), (enc_eres e)) :: [])))
| IBind (v, e) ->
  tagc (String ((Ascii (false, true, false, false, false, false, true,
    false)), (String ((Ascii (true, false, false, true, false, true, true,
    false)), (String ((Ascii (false, true, true, true, false, true, true,
    false)), (String ((Ascii (false, false, true, false, false, true, true,
    false)), (String ((Ascii (true, false, false, true, false, true, true,
    false)), (String ((Ascii (false, true, true, true, false, true, true,
    false)), (String ((Ascii (true, true, true, false, false, true, true,
    false)), EmptyString)))))))))))))) (JObj (((String ((Ascii (false, true,
    true, false, true, true, true, false)), (String ((Ascii (true, false,
    false, false, false, true, true, false)), (String ((Ascii (false, false,
    true, true, false, true, true, false)), EmptyString)))))),
    (enc_value v)) :: (((String ((Ascii (true, false, true, false, false,
    true, true, false)), (String ((Ascii (false, false, false, true, true,
    true, true, false)), (String ((Ascii (false, false, false, false, true,
    true, true, false)), (String ((Ascii (false, true, false, false, true,
    true, true, false)), (String ((Ascii (true, true, true, true, true,
    false, true, false)), (String ((Ascii (false, true, false, false, true,
    true, true, false)), (String ((Ascii (true, false, true, false, false,
    true, true, false)), (String ((Ascii (true, true, false, false, true,
    true, true, false)), (String ((Ascii (true, false, true, false, true,
    true, true, false)), (String ((Ascii (false, false, true, true, false,
    true, true, false)), (String ((Ascii (false, false, true, false, true,
    true, true, false)), EmptyString)))))))))))))))))))))),
    (enc_eres e)) :: [])))
| IFnRet e ->
  tagc (String ((Ascii (true, false, true, false, false, false, true,
    false)), (String ((Ascii (false, false, false, true, true, true, true,
    false)), (String ((Ascii (false, false, false, false, true, true, true,
    false)), (String ((Ascii (false, true, false, false, true, true, true,
    false)), (String ((Ascii (true, false, true, false, false, true, true,
    false)), (String ((Ascii (true, true, false, false, true, true, true,
    false)), (String ((Ascii (true, true, false, false, true, true, true,
    false)), (String ((Ascii (true, false, false, true, false, true, true,
    false)), (String ((Ascii (true, true, true, true, false, true, true,
    false)), (String ((Ascii (false, true, true, true, false, true, true,
    false)), (String ((Ascii (false, true, true, false, false, false, true,
    false)), (String ((Ascii (true, false, true, false, true, true, true,
    false)), (String ((Ascii (false, true, true, true, false, true, true,
    false)), (String ((Ascii (true, true, false, false, false, true, true,
    false)), (String ((Ascii (false, false, true, false, true, true, true,
    false)), (String ((Ascii (true, false, false, true, false, true, true,
    false)), (String ((Ascii (true, true, true, true, false, true, true,
    false)), (String ((Ascii (false, true, true, true, false, true, true,
    false)), (String ((Ascii (false, true, false, false, true, false, true,
    false)), (String ((Ascii (true, false, true, false, false, true, true,
    false)), (String ((Ascii (false, false, true, false, true, true, true,
    false)), (String ((Ascii (true, false, true, false, true, true, true,
    false)), (String ((Ascii (false, true, false, false, true, true, true,
    false)), (String ((Ascii (false, true, true, true, false, true, true,
    false)), EmptyString))))))))))))))))))))))))))))))))))))))))))))))))
    (JObj (((String ((Ascii (true, false, true, false, false, true, true,
    false)), (String ((Ascii (false, false, false, true, true, true, true,
    false)), (String ((Ascii (false, false, false, false, true, true, true,
    false)), (String ((Ascii (false, true, false, false, true, true, true,
    false)), (String ((Ascii (true, true, true, true, true, false, true,
    false)), (String ((Ascii (false, true, false, false, true, true, true,
    false)), (String ((Ascii (true, false, true, false, false, true, true,
    false)), (String ((Ascii (true, true, false, false, true, true, true,
    false)), (String ((Ascii (true, false, true, false, true, true, true,
    false)), (String ((Ascii (false, false, true, true, false, true, true,
    false)), (String ((Ascii (false, false, true, false, true, true, true,
    false)), EmptyString)))))))))))))))))))))), (enc_eres e)) :: []))
| IFnRetLabel e ->
  tagc (String ((Ascii (true, false, true, false, false, false, true,
    false)), (String ((Ascii (false, false, false, true, true, true, true,
    false)), (String ((Ascii (false, false, false, false, true, true, true,
    false)), (String ((Ascii (false, true, false, false, true, true, true,
    false)), (String ((Ascii (true, false, true, false, false, true, true,
    false)), (String ((Ascii (true, true, false, false, true, true, true,
    false)), (String ((Ascii (true, true, false, false, true, true, true,
    false)), (String ((Ascii (true, false, false, true, false, true, true,
    false)), (String ((Ascii (true, true, true, true, false, true, true,
    false)), (String ((Ascii (false, true, true, true, false, true, true,
    false)), (String ((Ascii (false, true, true, false, false, false, true,
    false)), (String ((Ascii (true, false, true, false, true, true, true,
    false)), (String ((Ascii (false, true, true, true, false, true, true,
    false)), (String ((Ascii (true, true, false, false, false, true, true,
    false)), (String ((Ascii (false, false, true, false, true, true, true,
    false)), (String ((Ascii (true, false, false, true, false, true, true,
    false)), (String ((Ascii (true, true, true, true, false, true, true,
    false)), (String ((Ascii (false, true, true, true, false, true, true,
    false)), (String ((Ascii (false, true, false, false, true, false, true,
    false)), (String ((Ascii (true, false, true, false, false, true, true,
    false)), (String ((Ascii (false, false, true, false, true, true, true,
    false)), (String ((Ascii (true, false, true, false, true, true, true,
    false)), (String ((Ascii (false, true, false, false, true, true, true,
    false)), (String ((Ascii (false, true, true, true, false, true, true,
    false)), (String ((Ascii (true, true, true, false, true, false, true,
    false)), (String ((Ascii (true, false, false, true, false, true, true,
    false)), (String ((Ascii (false, false, true, false, true, true, true,
    false)), (String ((Ascii (false, false, false, true, false, true, true,
    false)), (String ((Ascii (false, false, true, true, false, false, true,
    false)), (String ((Ascii (true, false, false, false, false, true, true,
    false)), (String ((Ascii (false, true, false, false, false, true, true,
    false)), (String ((Ascii (true, false, true, false, false, true, true,
    false)), (String ((Ascii (false, false, true, true, false, true, true,
    false)),
    EmptyString))))))))))))))))))))))))))))))))))))))))))))))))))))))))))))))))))
    (JObj (((String ((Ascii (true, false, true, false, false, true, true,
    false)), (String ((Ascii (false, false, false, true, true, true, true,
    false)), (String ((Ascii (false, false, false, false, true, true, true,
    false)), (String ((Ascii (false, true, false, false, true, true, true,
    false)), (String ((Ascii (true, true, true, true, true, false, true,
    false)), (String ((Ascii (false, true, false, false, true, true, true,
    false)), (String ((Ascii (true, false, true, false, false, true, true,
    false)), (String ((Ascii (true, true, false, false, true, true, true,
    false)), (String ((Ascii (true, false, true, false, true, true, true,
    false)), (String ((Ascii (false, false, true, true, false, true, true,
    false)), (String ((Ascii (false, false, true, false, true, true, true,
    false)), EmptyString)))))))))))))))))))))), (enc_eres e)) :: []))
| ISetLabel l ->
  tagc (String ((Ascii (true, true, false, false, true, false, true, false)),
    (String ((Ascii (true, false, true, false, false, true, true, false)),
    (String ((Ascii (false, false, true, false, true, true, true, false)),
    (String ((Ascii (false, false, true, true, false, false, true, false)),
    (String ((Ascii (true, false, false, false, false, true, true, false)),
    (String ((Ascii (false, true, false, false, false, true, true, false)),
    (String ((Ascii (true, false, true, false, false, true, true, false)),
    (String ((Ascii (false, false, true, true, false, true, true, false)),
    EmptyString)))))))))))))))) (JObj (((String ((Ascii (false, false, true,
    true, false, true, true, false)), (String ((Ascii (true, false, false,
    false, false, true, true, false)), (String ((Ascii (false, true, false,
    false, false, true, true, false)), (String ((Ascii (true, false, true,
    false, false, true, true, false)), (String ((Ascii (false, false, true,
    true, false, true, true, false)), EmptyString)))))))))), (JStr l)) :: []))
| IJumpTo l ->
  tagc (String ((Ascii (false, true, false, true, false, false, true,
    false)), (String ((Ascii (true, false, true, false, true, true, true,
    false)), (String ((Ascii (true, false, true, true, false, true, true,
    false)), (String ((Ascii (false, false, false, false, true, true, true,
    false)), (String ((Ascii (false, false, true, false, true, false, true,
    false)), (String ((Ascii (true, true, true, true, false, true, true,
    false)), EmptyString)))))))))))) (JObj (((String ((Ascii (false, false,
    true, true, false, true, true, false)), (String ((Ascii (true, false,
    false, false, false, true, true, false)), (String ((Ascii (false, true,
    false, false, false, true, true, false)), (String ((Ascii (true, false,
    true, false, false, true, true, false)), (String ((Ascii (false, false,
    true, true, false, true, true, false)), EmptyString)))))))))), (JStr
    l)) :: []))
| IIfCondExpr (e, lb, le) ->
  tagc (String ((Ascii (true, false, false, true, false, false, true,
    false)), (String ((Ascii (false, true, true, false, false, true, true,
    false)), (String ((Ascii (true, true, false, false, false, false, true,
    false)), (String ((Ascii (true, true, true, true, false, true, true,
    false)), (String ((Ascii (false, true, true, true, false, true, true,
    false)), (String ((Ascii (false, false, true, false, false, true, true,
    false)), (String ((Ascii (true, false, false, true, false, true, true,
    false)), (String ((Ascii (false, false, true, false, true, true, true,
    false)), (String ((Ascii (true, false, false, true, false, true, true,
    false)), (String ((Ascii (true, true, true, true, false, true, true,
    false)), (String ((Ascii (false, true, true, true, false, true, true,
    false)), (String ((Ascii (true, false, true, false, false, false, true,
    false)), (String ((Ascii (false, false, false, true, true, true, true,
    false)), (String ((Ascii (false, false, false, false, true, true, true,
    false)), (String ((Ascii (false, true, false, false, true, true, true,
    false)), (String ((Ascii (true, false, true, false, false, true, true,
    false)), (String ((Ascii (true, true, false, false, true, true, true,
    false)), (String ((Ascii (true, true, false, false, true, true, true,
    false)), (String ((Ascii (true, false, false, true, false, true, true,
    false)), (String ((Ascii (true, true, true, true, false, true, true,
    false)), (String ((Ascii (false, true, true, true, false, true, true,
    false)), EmptyString)))))))))))))))))))))))))))))))))))))))))) (JObj
    (((String ((Ascii (true, false, true, false, false, true, true, false)),
    (String ((Ascii (false, false, false, true, true, true, true, false)),
    (String ((Ascii (false, false, false, false, true, true, true, false)),
    (String ((Ascii (false, true, false, false, true, true, true, false)),
    (String ((Ascii (true, true, true, true, true, false, true, false)),
    (String ((Ascii (false, true, false, false, true, true, true, false)),
    (String ((Ascii (true, false, true, false, false, true, true, false)),
    (String ((Ascii (true, true, false, false, true, true, true, false)),
    (String ((Ascii (true, false, true, false, true, true, true, false)),
    (String ((Ascii (false, false, true, true, false, true, true, false)),
    (String ((Ascii (false, false, true, false, true, true, true, false)),
    EmptyString)))))))))))))))))))))), (enc_eres e)) :: (((String ((Ascii
    (false, false, true, true, false, true, true, false)), (String ((Ascii
    (true, false, false, false, false, true, true, false)), (String ((Ascii
    (false, true, false, false, false, true, true, false)), (String ((Ascii
    (true, false, true, false, false, true, true, false)), (String ((Ascii
    (false, false, true, true, false, true, true, false)), (String ((Ascii
    (true, true, true, true, true, false, true, false)), (String ((Ascii
    (true, false, false, true, false, true, true, false)), (String ((Ascii
    (false, true, true, false, false, true, true, false)), (String ((Ascii
    (true, true, true, true, true, false, true, false)), (String ((Ascii
    (false, true, false, false, false, true, true, false)), (String ((Ascii
    (true, false, true, false, false, true, true, false)), (String ((Ascii
    (true, true, true, false, false, true, true, false)), (String ((Ascii
    (true, false, false, true, false, true, true, false)), (String ((Ascii
    (false, true, true, true, false, true, true, false)),
    EmptyString)))))))))))))))))))))))))))), (JStr lb)) :: (((String ((Ascii
    (false, false, true, true, false, true, true, false)), (String ((Ascii
    (true, false, false, false, false, true, true, false)), (String ((Ascii
    (false, true, false, false, false, true, true, false)), (String ((Ascii
    (true, false, true, false, false, true, true, false)), (String ((Ascii
    (false, false, true, true, false, true, true, false)), (String ((Ascii
    (true, true, true, true, true, false, true, false)), (String ((Ascii
    (true, false, false, true, false, true, true, false)), (String ((Ascii
    (false, true, true, false, false, true, true, false)), (String ((Ascii
    (true, true, true, true, true, false, true, false)), (String ((Ascii
    (true, false, true, false, false, true, true, false)), (String ((Ascii
    (false, true, true, true, false, true, true, false)), (String ((Ascii
    (false, false, true, false, false, true, true, false)),
    EmptyString)))))))))))))))))))))))), (JStr le)) :: []))))
| ICondExpr (l, r, c, reg) ->
  tagc (String ((Ascii (true, true, false, false, false, false, true,
    false)), (String ((Ascii (true, true, true, true, false, true, true,
    false)), (String ((Ascii (false, true, true, true, false, true, true,
    false)), (String ((Ascii (false, false, true, false, false, true, true,
    false)), (String ((Ascii (true, false, false, true, false, true, true,
    false)), (String ((Ascii (false, false, true, false, true, true, true,
    false)), (String ((Ascii (true, false, false, true, false, true, true,
    false)), (String ((Ascii (true, true, true, true, false, true, true,
    false)), (String ((Ascii (false, true, true, true, false, true, true,
    false)), (String ((Ascii (true, false, true, false, false, false, true,
    false)), (String ((Ascii (false, false, false, true, true, true, true,
    false)), (String ((Ascii (false, false, false, false, true, true, true,
    false)), (String ((Ascii (false, true, false, false, true, true, true,
    false)), (String ((Ascii (true, false, true, false, false, true, true,
    false)), (String ((Ascii (true, true, false, false, true, true, true,
    false)), (String ((Ascii (true, true, false, false, true, true, true,
    false)), (String ((Ascii (true, false, false, true, false, true, true,
    false)), (String ((Ascii (true, true, true, true, false, true, true,
    false)), (String ((Ascii (false, true, true, true, false, true, true,
    false)), EmptyString)))))))))))))))))))))))))))))))))))))) (JObj
    (((String ((Ascii (false, false, true, true, false, true, true, false)),
    (String ((Ascii (true, false, true, false, false, true, true, false)),
    (String ((Ascii (false, true, true, false, false, true, true, false)),
    (String ((Ascii (false, false, true, false, true, true, true, false)),
    (String ((Ascii (true, true, true, true, true, false, true, false)),
    (String ((Ascii (false, true, false, false, true, true, true, false)),
    (String ((Ascii (true, false, true, false, false, true, true, false)),
    (String ((Ascii (true, true, false, false, true, true, true, false)),
    (String ((Ascii (true, false, true, false, true, true, true, false)),
    (String ((Ascii (false, false, true, true, false, true, true, false)),
    (String ((Ascii (false, false, true, false, true, true, true, false)),
    EmptyString)))))))))))))))))))))), (enc_eres l)) :: (((String ((Ascii
    (false, true, false, false, true, true, true, false)), (String ((Ascii
    (true, false, false, true, false, true, true, false)), (String ((Ascii
    (true, true, true, false, false, true, true, false)), (String ((Ascii
    (false, false, false, true, false, true, true, false)), (String ((Ascii
    (false, false, true, false, true, true, true, false)), (String ((Ascii
    (true, true, true, true, true, false, true, false)), (String ((Ascii
    (false, true, false, false, true, true, true, false)), (String ((Ascii
    (true, false, true, false, false, true, true, false)), (String ((Ascii
    (true, true, false, false, true, true, true, false)), (String ((Ascii
    (true, false, true, false, true, true, true, false)), (String ((Ascii
    (false, false, true, true, false, true, true, false)), (String ((Ascii
    (false, false, true, false, true, true, true, false)),
    EmptyString)))))))))))))))))))))))), (enc_eres r)) :: (((String ((Ascii
    (true, true, false, false, false, true, true, false)), (String ((Ascii
    (true, true, true, true, false, true, true, false)), (String ((Ascii
    (false, true, true, true, false, true, true, false)), (String ((Ascii
    (false, false, true, false, false, true, true, false)), (String ((Ascii
    (true, false, false, true, false, true, true, false)), (String ((Ascii
    (false, false, true, false, true, true, true, false)), (String ((Ascii
    (true, false, false, true, false, true, true, false)), (String ((Ascii
    (true, true, true, true, false, true, true, false)), (String ((Ascii
    (false, true, true, true, false, true, true, false)),
    EmptyString)))))))))))))))))), (enc_cmpop c)) :: (((String ((Ascii
    (false, true, false, false, true, true, true, false)), (String ((Ascii
    (true, false, true, false, false, true, true, false)), (String ((Ascii
    (true, true, true, false, false, true, true, false)), (String ((Ascii
    (true, false, false, true, false, true, true, false)), (String ((Ascii
    (true, true, false, false, true, true, true, false)), (String ((Ascii
    (false, false, true, false, true, true, true, false)), (String ((Ascii
    (true, false, true, false, false, true, true, false)), (String ((Ascii
    (false, true, false, false, true, true, true, false)), (String ((Ascii
    (true, true, true, true, true, false, true, false)), (String ((Ascii
    (false, true, true, true, false, true, true, false)), (String ((Ascii
    (true, false, true, false, true, true, true, false)), (String ((Ascii
    (true, false, true, true, false, true, true, false)), (String ((Ascii
    (false, true, false, false, false, true, true, false)), (String ((Ascii
    (true, false, true, false, false, true, true, false)), (String ((Ascii
    (false, true, false, false, true, true, true, false)),
    EmptyString)))))))))))))))))))))))))))))), (enc_N reg)) :: [])))))
| IJumpFnRet e ->
  tagc (String ((Ascii (false, true, false, true, false, false, true,
    false)), (String ((Ascii (true, false, true, false, true, true, true,
    false)), (String ((Ascii (true, false, true, true, false, true, true,
    false)), (String ((Ascii (false, false, false, false, true, true, true,
    false)), (String ((Ascii (false, true, true, false, false, false, true,
    false)), (String ((Ascii (true, false, true, false, true, true, true,
    false)), (String ((Ascii (false, true, true, true, false, true, true,
    false)), (String ((Ascii (true, true, false, false, false, true, true,
    false)), (String ((Ascii (false, false, true, false, true, true, true,
    false)), (String ((Ascii (true, false, false, true, false, true, true,
    false)), (String ((Ascii (true, true, true, true, false, true, true,
    false)), (String ((Ascii (false, true, true, true, false, true, true,
    false)), (String ((Ascii (false, true, false, false, true, false, true,
    false)), (String ((Ascii (true, false, true, false, false, true, true,
    false)), (String ((Ascii (false, false, true, false, true, true, true,
    false)), (String ((Ascii (true, false, true, false, true, true, true,
    false)), (String ((Ascii (false, true, false, false, true, true, true,
    false)), (String ((Ascii (false, true, true, true, false, true, true,
    false)), EmptyString)))))))))))))))))))))))))))))))))))) (JObj (((String
    ((Ascii (true, false, true, false, false, true, true, false)), (String
    ((Ascii (false, false, false, true, true, true, true, false)), (String
    ((Ascii (false, false, false, false, true, true, true, false)), (String
    ((Ascii (false, true, false, false, true, true, true, false)), (String
    ((Ascii (true, true, true, true, true, false, true, false)), (String
    ((Ascii (false, true, false, false, true, true, true, false)), (String
    ((Ascii (true, false, true, false, false, true, true, false)), (String
    ((Ascii (true, true, false, false, true, true, true, false)), (String
    ((Ascii (true, false, true, false, true, true, true, false)), (String
    ((Ascii (false, false, true, true, false, true, true, false)), (String
    ((Ascii (false, false, true, false, true, true, true, false)),
    EmptyString)))))))))))))))))))))), (enc_eres e)) :: []))
| ILogic (op, l, r, reg) ->
  tagc (String ((Ascii (false, false, true, true, false, false, true,
    false)), (String ((Ascii (true, true, true, true, false, true, true,
    false)), (String ((Ascii (true, true, true, false, false, true, true,
    false)), (String ((Ascii (true, false, false, true, false, true, true,
    false)), (String ((Ascii (true, true, false, false, false, true, true,
    false)), (String ((Ascii (true, true, false, false, false, false, true,
    false)), (String ((Ascii (true, true, true, true, false, true, true,
    false)), (String ((Ascii (false, true, true, true, false, true, true,
    false)), (String ((Ascii (false, false, true, false, false, true, true,
    false)), (String ((Ascii (true, false, false, true, false, true, true,
    false)), (String ((Ascii (false, false, true, false, true, true, true,
    false)), (String ((Ascii (true, false, false, true, false, true, true,
    false)), (String ((Ascii (true, true, true, true, false, true, true,
    false)), (String ((Ascii (false, true, true, true, false, true, true,
    false)), EmptyString)))))))))))))))))))))))))))) (JObj (((String ((Ascii
    (false, false, true, true, false, true, true, false)), (String ((Ascii
    (true, true, true, true, false, true, true, false)), (String ((Ascii
    (true, true, true, false, false, true, true, false)), (String ((Ascii
    (true, false, false, true, false, true, true, false)), (String ((Ascii
    (true, true, false, false, false, true, true, false)), (String ((Ascii
    (true, true, true, true, true, false, true, false)), (String ((Ascii
    (true, true, false, false, false, true, true, false)), (String ((Ascii
    (true, true, true, true, false, true, true, false)), (String ((Ascii
    (false, true, true, true, false, true, true, false)), (String ((Ascii
    (false, false, true, false, false, true, true, false)), (String ((Ascii
    (true, false, false, true, false, true, true, false)), (String ((Ascii
    (false, false, true, false, true, true, true, false)), (String ((Ascii
    (true, false, false, true, false, true, true, false)), (String ((Ascii
    (true, true, true, true, false, true, true, false)), (String ((Ascii
    (false, true, true, true, false, true, true, false)),
    EmptyString)))))))))))))))))))))))))))))), (enc_logicop op)) :: (((String
    ((Ascii (false, false, true, true, false, true, true, false)), (String
    ((Ascii (true, false, true, false, false, true, true, false)), (String
    ((Ascii (false, true, true, false, false, true, true, false)), (String
    ((Ascii (false, false, true, false, true, true, true, false)), (String
    ((Ascii (true, true, true, true, true, false, true, false)), (String
    ((Ascii (false, true, false, false, true, true, true, false)), (String
    ((Ascii (true, false, true, false, false, true, true, false)), (String
    ((Ascii (true, true, true, false, false, true, true, false)), (String
    ((Ascii (true, false, false, true, false, true, true, false)), (String
    ((Ascii (true, true, false, false, true, true, true, false)), (String
    ((Ascii (false, false, true, false, true, true, true, false)), (String
    ((Ascii (true, false, true, false, false, true, true, false)), (String
    ((Ascii (false, true, false, false, true, true, true, false)), (String
    ((Ascii (true, true, true, true, true, false, true, false)), (String
    ((Ascii (false, true, false, false, true, true, true, false)), (String
    ((Ascii (true, false, true, false, false, true, true, false)), (String
    ((Ascii (true, true, false, false, true, true, true, false)), (String
    ((Ascii (true, false, true, false, true, true, true, false)), (String
    ((Ascii (false, false, true, true, false, true, true, false)), (String
    ((Ascii (false, false, true, false, true, true, true, false)),
    EmptyString)))))))))))))))))))))))))))))))))))))))),
    (enc_N l)) :: (((String ((Ascii (false, true, false, false, true, true,
    true, false)), (String ((Ascii (true, false, false, true, false, true,
    true, false)), (String ((Ascii (true, true, true, false, false, true,
    true, false)), (String ((Ascii (false, false, false, true, false, true,
    true, false)), (String ((Ascii (false, false, true, false, true, true,
    true, false)), (String ((Ascii (true, true, true, true, true, false,
    true, false)), (String ((Ascii (false, true, false, false, true, true,
    true, false)), (String ((Ascii (true, false, true, false, false, true,
    true, false)), (String ((Ascii (true, true, true, false, false, true,
    true, false)), (String ((Ascii (true, false, false, true, false, true,
    true, false)), (String ((Ascii (true, true, false, false, true, true,
    true, false)), (String ((Ascii (false, false, true, false, true, true,
    true, false)), (String ((Ascii (true, false, true, false, false, true,
    true, false)), (String ((Ascii (false, true, false, false, true, true,
    true, false)), (String ((Ascii (true, true, true, true, true, false,
    true, false)), (String ((Ascii (false, true, false, false, true, true,
    true, false)), (String ((Ascii (true, false, true, false, false, true,
    true, false)), (String ((Ascii (true, true, false, false, true, true,
    true, false)), (String ((Ascii (true, false, true, false, true, true,
    true, false)), (String ((Ascii (false, false, true, true, false, true,
    true, false)), (String ((Ascii (false, false, true, false, true, true,
    true, false)), EmptyString)))))))))))))))))))))))))))))))))))))))))),
    (enc_N r)) :: (((String ((Ascii (false, true, false, false, true, true,
    true, false)), (String ((Ascii (true, false, true, false, false, true,
    true, false)), (String ((Ascii (true, true, true, false, false, true,
    true, false)), (String ((Ascii (true, false, false, true, false, true,
    true, false)), (String ((Ascii (true, true, false, false, true, true,
    true, false)), (String ((Ascii (false, false, true, false, true, true,
    true, false)), (String ((Ascii (true, false, true, false, false, true,
    true, false)), (String ((Ascii (false, true, false, false, true, true,
    true, false)), (String ((Ascii (true, true, true, true, true, false,
    true, false)), (String ((Ascii (false, true, true, true, false, true,
    true, false)), (String ((Ascii (true, false, true, false, true, true,
    true, false)), (String ((Ascii (true, false, true, true, false, true,
    true, false)), (String ((Ascii (false, true, false, false, false, true,
    true, false)), (String ((Ascii (true, false, true, false, false, true,
    true, false)), (String ((Ascii (false, true, false, false, true, true,
    true, false)), EmptyString)))))))))))))))))))))))))))))),
    (enc_N reg)) :: [])))))
| IIfCondLogic (lb, le, r) ->
  tagc (String ((Ascii (true, false, false, true, false, false, true,
    false)), (String ((Ascii (false, true, true, false, false, true, true,
    false)), (String ((Ascii (true, true, false, false, false, false, true,
    false)), (String ((Ascii (true, true, true, true, false, true, true,
    false)), (String ((Ascii (false, true, true, true, false, true, true,
    false)), (String ((Ascii (false, false, true, false, false, true, true,
    false)), (String ((Ascii (true, false, false, true, false, true, true,
    false)), (String ((Ascii (false, false, true, false, true, true, true,
    false)), (String ((Ascii (true, false, false, true, false, true, true,
    false)), (String ((Ascii (true, true, true, true, false, true, true,
    false)), (String ((Ascii (false, true, true, true, false, true, true,
    false)), (String ((Ascii (false, false, true, true, false, false, true,
    false)), (String ((Ascii (true, true, true, true, false, true, true,
    false)), (String ((Ascii (true, true, true, false, false, true, true,
    false)), (String ((Ascii (true, false, false, true, false, true, true,
    false)), (String ((Ascii (true, true, false, false, false, true, true,
    false)), EmptyString)))))))))))))))))))))))))))))))) (JObj (((String
    ((Ascii (false, false, true, true, false, true, true, false)), (String
    ((Ascii (true, false, false, false, false, true, true, false)), (String
    ((Ascii (false, true, false, false, false, true, true, false)), (String
    ((Ascii (true, false, true, false, false, true, true, false)), (String
    ((Ascii (false, false, true, true, false, true, true, false)), (String
    ((Ascii (true, true, true, true, true, false, true, false)), (String
    ((Ascii (true, false, false, true, false, true, true, false)), (String
    ((Ascii (false, true, true, false, false, true, true, false)), (String
    ((Ascii (true, true, true, true, true, false, true, false)), (String
    ((Ascii (false, true, false, false, false, true, true, false)), (String
    ((Ascii (true, false, true, false, false, true, true, false)), (String
    ((Ascii (true, true, true, false, false, true, true, false)), (String
    ((Ascii (true, false, false, true, false, true, true, false)), (String
    ((Ascii (false, true, true, true, false, true, true, false)),
    EmptyString)))))))))))))))))))))))))))), (JStr lb)) :: (((String ((Ascii
    (false, false, true, true, false, true, true, false)), (String ((Ascii
    (true, false, false, false, false, true, true, false)), (String ((Ascii
    (false, true, false, false, false, true, true, false)), (String ((Ascii
    (true, false, true, false, false, true, true, false)), (String ((Ascii
    (false, false, true, true, false, true, true, false)), (String ((Ascii
    (true, true, true, true, true, false, true, false)), (String ((Ascii
    (true, false, false, true, false, true, true, false)), (String ((Ascii
    (false, true, true, false, false, true, true, false)), (String ((Ascii
    (true, true, true, true, true, false, true, false)), (String ((Ascii
    (true, false, true, false, false, true, true, false)), (String ((Ascii
    (false, true, true, true, false, true, true, false)), (String ((Ascii
    (false, false, true, false, false, true, true, false)),
    EmptyString)))))))))))))))))))))))), (JStr le)) :: (((String ((Ascii
    (false, true, false, false, true, true, true, false)), (String ((Ascii
    (true, false, true, false, false, true, true, false)), (String ((Ascii
    (true, true, false, false, true, true, true, false)), (String ((Ascii
    (true, false, true, false, true, true, true, false)), (String ((Ascii
    (false, false, true, true, false, true, true, false)), (String ((Ascii
    (false, false, true, false, true, true, true, false)), (String ((Ascii
    (true, true, true, true, true, false, true, false)), (String ((Ascii
    (false, true, false, false, true, true, true, false)), (String ((Ascii
    (true, false, true, false, false, true, true, false)), (String ((Ascii
    (true, true, true, false, false, true, true, false)), (String ((Ascii
    (true, false, false, true, false, true, true, false)), (String ((Ascii
    (true, true, false, false, true, true, true, false)), (String ((Ascii
    (false, false, true, false, true, true, true, false)), (String ((Ascii
    (true, false, true, false, false, true, true, false)), (String ((Ascii
    (false, true, false, false, true, true, true, false)),
    EmptyString)))))))))))))))))))))))))))))), (enc_N r)) :: []))))
| IFnArg (v, pn, pt) ->
  tagc (String ((Ascii (false, true, true, false, false, false, true,
    false)), (String ((Ascii (true, false, true, false, true, true, true,
    false)), (String ((Ascii (false, true, true, true, false, true, true,
    false)), (String ((Ascii (true, true, false, false, false, true, true,
    false)), (String ((Ascii (false, false, true, false, true, true, true,
    false)), (String ((Ascii (true, false, false, true, false, true, true,
    false)), (String ((Ascii (true, true, true, true, false, true, true,
    false)), (String ((Ascii (false, true, true, true, false, true, true,
    false)), (String ((Ascii (true, false, false, false, false, false, true,
    false)), (String ((Ascii (false, true, false, false, true, true, true,
    false)), (String ((Ascii (true, true, true, false, false, true, true,
    false)), EmptyString)))))))))))))))))))))) (JObj (((String ((Ascii
    (false, true, true, false, true, true, true, false)), (String ((Ascii
    (true, false, false, false, false, true, true, false)), (String ((Ascii
    (false, false, true, true, false, true, true, false)), (String ((Ascii
    (true, false, true, false, true, true, true, false)), (String ((Ascii
    (true, false, true, false, false, true, true, false)),
    EmptyString)))))))))), (enc_value v)) :: (((String ((Ascii (false, true,
    true, false, false, true, true, false)), (String ((Ascii (true, false,
    true, false, true, true, true, false)), (String ((Ascii (false, true,
    true, true, false, true, true, false)), (String ((Ascii (true, true,
    false, false, false, true, true, false)), (String ((Ascii (true, true,
    true, true, true, false, true, false)), (String ((Ascii (true, false,
    false, false, false, true, true, false)), (String ((Ascii (false, true,
    false, false, true, true, true, false)), (String ((Ascii (true, true,
    true, false, false, true, true, false)), EmptyString)))))))))))))))),
    (JObj (((String ((Ascii (false, true, true, true, false, true, true,
    false)), (String ((Ascii (true, false, false, false, false, true, true,
    false)), (String ((Ascii (true, false, true, true, false, true, true,
    false)), (String ((Ascii (true, false, true, false, false, true, true,
    false)), EmptyString)))))))), (JStr pn)) :: (((String ((Ascii (false,
    false, false, false, true, true, true, false)), (String ((Ascii (true,
    false, false, false, false, true, true, false)), (String ((Ascii (false,
    true, false, false, true, true, true, false)), (String ((Ascii (true,
    false, false, false, false, true, true, false)), (String ((Ascii (true,
    false, true, true, false, true, true, false)), (String ((Ascii (true,
    false, true, false, false, true, true, false)), (String ((Ascii (false,
    false, true, false, true, true, true, false)), (String ((Ascii (true,
    false, true, false, false, true, true, false)), (String ((Ascii (false,
    true, false, false, true, true, true, false)), (String ((Ascii (true,
    true, true, true, true, false, true, false)), (String ((Ascii (false,
    false, true, false, true, true, true, false)), (String ((Ascii (true,
    false, false, true, true, true, true, false)), (String ((Ascii (false,
    false, false, false, true, true, true, false)), (String ((Ascii (true,
    false, true, false, false, true, true, false)),
    EmptyString)))))))))))))))))))))))))))),
    (enc_sem_ty pt)) :: [])))) :: [])))
| IExt (tag, r) ->
  tagc (String ((Ascii (true, false, true, false, false, false, true,
    false)), (String ((Ascii (false, false, false, true, true, true, true,
    false)), (String ((Ascii (false, false, true, false, true, true, true,
    false)), (String ((Ascii (true, false, true, false, false, true, true,
    false)), (String ((Ascii (false, true, true, true, false, true, true,
    false)), (String ((Ascii (false, false, true, false, false, true, true,
    false)), (String ((Ascii (true, false, true, false, false, true, true,
    false)), (String ((Ascii (false, false, true, false, false, true, true,
    false)), (String ((Ascii (true, false, true, false, false, false, true,
    false)), (String ((Ascii (false, false, false, true, true, true, true,
    false)), (String ((Ascii (false, false, false, false, true, true, true,
    false)), (String ((Ascii (false, true, false, false, true, true, true,
    false)), (String ((Ascii (true, false, true, false, false, true, true,
    false)), (String ((Ascii (true, true, false, false, true, true, true,
    false)), (String ((Ascii (true, true, false, false, true, true, true,
    false)), (String ((Ascii (true, false, false, true, false, true, true,
    false)), (String ((Ascii (true, true, true, true, false, true, true,
    false)), (String ((Ascii (false, true, true, true, false, true, true,
    false)), EmptyString)))))))))))))))))))))))))))))))))))) (JObj (((String
    ((Ascii (false, false, true, false, true, true, true, false)), (String
    ((Ascii (true, false, false, false, false, true, true, false)), (String
    ((Ascii (true, true, true, false, false, true, true, false)),
    EmptyString)))))), (enc_N tag)) :: (((String ((Ascii (false, true, false,
    false, true, true, true, false)), (String ((Ascii (true, false, true,
    false, false, true, true, false)), (String ((Ascii (true, true, true,
    false, false, true, true, false)), EmptyString)))))), (enc_N r)) :: [])))

(** val enc_stack : instr list -> json **)

let enc_stack c =
  JArr (map enc_instr c)

(** val enc_loc : loc -> json **)

let enc_loc l =
  JArr ((enc_N (fst l)) :: ((enc_N (snd l)) :: []))

(** val enc_err : err -> json **)

let enc_err e =
  JObj (((String ((Ascii (true, true, false, true, false, true, true,
    false)), (String ((Ascii (true, false, false, true, false, true, true,
    false)), (String ((Ascii (false, true, true, true, false, true, true,
    false)), (String ((Ascii (false, false, true, false, false, true, true,
    false)), EmptyString)))))))), (enc_err_kind e.e_kind)) :: (((String
    ((Ascii (false, true, true, false, true, true, true, false)), (String
    ((Ascii (true, false, false, false, false, true, true, false)), (String
    ((Ascii (false, false, true, true, false, true, true, false)), (String
    ((Ascii (true, false, true, false, true, true, true, false)), (String
    ((Ascii (true, false, true, false, false, true, true, false)),
    EmptyString)))))))))), (enc_opt enc_str e.e_val)) :: (((String ((Ascii
    (false, false, true, true, false, true, true, false)), (String ((Ascii
    (true, true, true, true, false, true, true, false)), (String ((Ascii
    (true, true, false, false, false, true, true, false)), (String ((Ascii
    (true, false, false, false, false, true, true, false)), (String ((Ascii
    (false, false, true, false, true, true, true, false)), (String ((Ascii
    (true, false, false, true, false, true, true, false)), (String ((Ascii
    (true, true, true, true, false, true, true, false)), (String ((Ascii
    (false, true, true, true, false, true, true, false)),
    EmptyString)))))))))))))))), (enc_loc e.e_loc)) :: [])))

(** val enc_errors : err list -> json **)

let enc_errors es =
  JArr (map enc_err es)

(** val enc_sparam : (string * sem_ty) -> json **)

let enc_sparam p =
  JObj (((String ((Ascii (false, true, true, true, false, true, true,
    false)), (String ((Ascii (true, false, false, false, false, true, true,
    false)), (String ((Ascii (true, false, true, true, false, true, true,
    false)), (String ((Ascii (true, false, true, false, false, true, true,
    false)), EmptyString)))))))), (JStr (fst p))) :: (((String ((Ascii
    (false, false, false, false, true, true, true, false)), (String ((Ascii
    (true, false, false, false, false, true, true, false)), (String ((Ascii
    (false, true, false, false, true, true, true, false)), (String ((Ascii
    (true, false, false, false, false, true, true, false)), (String ((Ascii
    (true, false, true, true, false, true, true, false)), (String ((Ascii
    (true, false, true, false, false, true, true, false)), (String ((Ascii
    (false, false, true, false, true, true, true, false)), (String ((Ascii
    (true, false, true, false, false, true, true, false)), (String ((Ascii
    (false, true, false, false, true, true, true, false)), (String ((Ascii
    (true, true, true, true, true, false, true, false)), (String ((Ascii
    (false, false, true, false, true, true, true, false)), (String ((Ascii
    (true, false, false, true, true, true, true, false)), (String ((Ascii
    (false, false, false, false, true, true, true, false)), (String ((Ascii
    (true, false, true, false, false, true, true, false)),
    EmptyString)))))))))))))))))))))))))))), (enc_sem_ty (snd p))) :: []))

(** val enc_ginstr : ginstr -> json **)

let enc_ginstr = function
| GTypes t ->
  tagc (String ((Ascii (false, false, true, false, true, false, true,
    false)), (String ((Ascii (true, false, false, true, true, true, true,
    false)), (String ((Ascii (false, false, false, false, true, true, true,
    false)), (String ((Ascii (true, false, true, false, false, true, true,
    false)), (String ((Ascii (true, true, false, false, true, true, true,
    false)), EmptyString)))))))))) (JObj (((String ((Ascii (false, false,
    true, false, true, true, true, false)), (String ((Ascii (true, false,
    false, true, true, true, true, false)), (String ((Ascii (false, false,
    false, false, true, true, true, false)), (String ((Ascii (true, false,
    true, false, false, true, true, false)), (String ((Ascii (true, true,
    true, true, true, false, true, false)), (String ((Ascii (false, false,
    true, false, false, true, true, false)), (String ((Ascii (true, false,
    true, false, false, true, true, false)), (String ((Ascii (true, true,
    false, false, false, true, true, false)), (String ((Ascii (false, false,
    true, true, false, true, true, false)), EmptyString)))))))))))))))))),
    (match t with
     | SStruct (n0, attrs) -> enc_sstruct_body n0 attrs
     | _ -> enc_sem_ty t)) :: []))
| GConst c ->
  tagc (String ((Ascii (true, true, false, false, false, false, true,
    false)), (String ((Ascii (true, true, true, true, false, true, true,
    false)), (String ((Ascii (false, true, true, true, false, true, true,
    false)), (String ((Ascii (true, true, false, false, true, true, true,
    false)), (String ((Ascii (false, false, true, false, true, true, true,
    false)), (String ((Ascii (true, false, false, false, false, true, true,
    false)), (String ((Ascii (false, true, true, true, false, true, true,
    false)), (String ((Ascii (false, false, true, false, true, true, true,
    false)), EmptyString)))))))))))))))) (JObj (((String ((Ascii (true, true,
    false, false, false, true, true, false)), (String ((Ascii (true, true,
    true, true, false, true, true, false)), (String ((Ascii (false, true,
    true, true, false, true, true, false)), (String ((Ascii (true, true,
    false, false, true, true, true, false)), (String ((Ascii (false, false,
    true, false, true, true, true, false)), (String ((Ascii (true, true,
    true, true, true, false, true, false)), (String ((Ascii (false, false,
    true, false, false, true, true, false)), (String ((Ascii (true, false,
    true, false, false, true, true, false)), (String ((Ascii (true, true,
    false, false, false, true, true, false)), (String ((Ascii (false, false,
    true, true, false, true, true, false)), EmptyString)))))))))))))))))))),
    (enc_const_sem c)) :: []))
| GFnDecl (n0, ps, r) ->
  tagc (String ((Ascii (false, true, true, false, false, false, true,
    false)), (String ((Ascii (true, false, true, false, true, true, true,
    false)), (String ((Ascii (false, true, true, true, false, true, true,
    false)), (String ((Ascii (true, true, false, false, false, true, true,
    false)), (String ((Ascii (false, false, true, false, true, true, true,
    false)), (String ((Ascii (true, false, false, true, false, true, true,
    false)), (String ((Ascii (true, true, true, true, false, true, true,
    false)), (String ((Ascii (false, true, true, true, false, true, true,
    false)), (String ((Ascii (false, false, true, false, false, false, true,
    false)), (String ((Ascii (true, false, true, false, false, true, true,
    false)), (String ((Ascii (true, true, false, false, false, true, true,
    false)), (String ((Ascii (false, false, true, true, false, true, true,
    false)), (String ((Ascii (true, false, false, false, false, true, true,
    false)), (String ((Ascii (false, true, false, false, true, true, true,
    false)), (String ((Ascii (true, false, false, false, false, true, true,
    false)), (String ((Ascii (false, false, true, false, true, true, true,
    false)), (String ((Ascii (true, false, false, true, false, true, true,
    false)), (String ((Ascii (true, true, true, true, false, true, true,
    false)), (String ((Ascii (false, true, true, true, false, true, true,
    false)), EmptyString)))))))))))))))))))))))))))))))))))))) (JObj
    (((String ((Ascii (false, true, true, false, false, true, true, false)),
    (String ((Ascii (false, true, true, true, false, true, true, false)),
    (String ((Ascii (true, true, true, true, true, false, true, false)),
    (String ((Ascii (false, false, true, false, false, true, true, false)),
    (String ((Ascii (true, false, true, false, false, true, true, false)),
    (String ((Ascii (true, true, false, false, false, true, true, false)),
    (String ((Ascii (false, false, true, true, false, true, true, false)),
    EmptyString)))))))))))))), (JObj (((String ((Ascii (false, true, true,
    true, false, true, true, false)), (String ((Ascii (true, false, false,
    false, false, true, true, false)), (String ((Ascii (true, false, true,
    true, false, true, true, false)), (String ((Ascii (true, false, true,
    false, false, true, true, false)), EmptyString)))))))), (JStr
    n0)) :: (((String ((Ascii (false, false, false, false, true, true, true,
    false)), (String ((Ascii (true, false, false, false, false, true, true,
    false)), (String ((Ascii (false, true, false, false, true, true, true,
    false)), (String ((Ascii (true, false, false, false, false, true, true,
    false)), (String ((Ascii (true, false, true, true, false, true, true,
    false)), (String ((Ascii (true, false, true, false, false, true, true,
    false)), (String ((Ascii (false, false, true, false, true, true, true,
    false)), (String ((Ascii (true, false, true, false, false, true, true,
    false)), (String ((Ascii (false, true, false, false, true, true, true,
    false)), (String ((Ascii (true, true, false, false, true, true, true,
    false)), EmptyString)))))))))))))))))))), (JArr
    (map enc_sparam ps))) :: (((String ((Ascii (false, true, false, false,
    true, true, true, false)), (String ((Ascii (true, false, true, false,
    false, true, true, false)), (String ((Ascii (true, true, false, false,
    true, true, true, false)), (String ((Ascii (true, false, true, false,
    true, true, true, false)), (String ((Ascii (false, false, true, true,
    false, true, true, false)), (String ((Ascii (false, false, true, false,
    true, true, true, false)), (String ((Ascii (true, true, true, true, true,
    false, true, false)), (String ((Ascii (false, false, true, false, true,
    true, true, false)), (String ((Ascii (true, false, false, true, true,
    true, true, false)), (String ((Ascii (false, false, false, false, true,
    true, true, false)), (String ((Ascii (true, false, true, false, false,
    true, true, false)), EmptyString)))))))))))))))))))))),
    (enc_sem_ty r)) :: []))))) :: []))

(** val enc_gstack : ginstr list -> json **)

let enc_gstack c =
  JArr (map enc_ginstr c)
