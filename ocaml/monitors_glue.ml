(* Which extracted monitors exist, and how their verdicts are printed: "C09:1 C07:0 ..."
   "-" = the property's domain (accepted and well-formed) does not contain this program. *)
module M = Model

let b2s b = if b then "1" else "0"
let rec nat_to_int = function M.O -> 0 | M.S k -> 1 + nat_to_int k
let rec nat_of_int n = if n <= 0 then M.O else M.S (nat_of_int (n - 1))

let c05_k = try int_of_string (Sys.getenv "VERIF_C05_K") with _ -> 6
let c05_fuel = try int_of_string (Sys.getenv "VERIF_C05_FUEL") with _ -> 400
(* value-level simulation: number of salts of the free interpretation, machine fuel, source fuel *)
let c05v_salts = try int_of_string (Sys.getenv "VERIF_C05V_SALTS") with _ -> 4
let c05v_nflat = try int_of_string (Sys.getenv "VERIF_C05V_NFLAT") with _ -> 1200
let c05v_nsrc = try int_of_string (Sys.getenv "VERIF_C05V_NSRC") with _ -> 300
let salts_list = List.init c05v_salts (fun i -> Driver.n_of_z (Z.of_int (1 + 7 * i)))

let run_all (p : M.program) (o : M.output) : string =
  let accepted = o.M.o_errors = [] in
  let wf = M.wf_b p in
  let dom = accepted && wf in
  let k = nat_of_int c05_k and fuel = nat_of_int c05_fuel in
  let intended = match M.first_violation false p with None -> "none" | Some v -> Driver.ostr (M.err_kind_name v.M.vi_kind) in
  String.concat " "
    [ "C09:" ^ b2s (M.chk_C09 o);
      "C07:" ^ b2s (M.chk_C07 p o);
      "j07:" ^ string_of_int (nat_to_int (M.judged_C07 p));
      "C12:" ^ b2s (M.chk_C12 o);
      "C15:" ^ b2s (M.chk_C15 p o);
      "C18:" ^ b2s (M.chk_C18 p o);
      "C18v:" ^ (if dom then b2s (M.chk_C18_values p o) else "-");
      "C14:" ^ b2s (M.chk_C14 p o);
      "C02:" ^ b2s (M.chk_C02 p o);
      "C01:" ^ b2s (M.chk_C01 p o);
      "C01q:" ^ b2s (M.chk_C01_quirk p o);
      "wf:" ^ b2s wf;
      "dom13:" ^ b2s (M.in_domain_b p);
      "wfe:" ^ b2s (M.accepted_spec_b p);
      "iv:" ^ intended;
      "C03:" ^ (if dom then b2s (M.chk_C03 p o) else "-");
      "C04:" ^ (if dom then b2s (M.chk_C04 p o) else "-");
      "C06:" ^ (if dom then b2s (M.chk_C06 p o && M.chk_C06_scoped p o) else "-");
      (* C07 for every leaf kind and statement position: the shape of every emitted tree is the shape
         of the bracketed source expression (with C06: the tree itself) *)
      "C07s:" ^ (if dom then b2s (M.chk_C07_shape p o) else "-");
      (* C19 speaks about every well-formed program (which must be accepted, C02): judged on the
         implementation's output even when the implementation reports errors *)
      "C19:" ^ (if wf then b2s (M.chk_C19_strict p o) else "-");
      "C08q:" ^ (if dom then b2s (M.chk_C08 true o) else "-");
      "C08i:" ^ (if dom then b2s (M.chk_C08 false o) else "-");
      "f7:" ^ string_of_int (nat_to_int (M.f7_count o));
      "C10u:" ^ b2s (M.chk_C10_unique o);
      "C10r:" ^ (if dom then b2s (M.chk_C10_resolve o) else "-");
      "C11:" ^ (if dom then b2s (M.chk_C11 p o) else "-");
      "C05q:" ^ (if dom then b2s (M.chk_C05 true k fuel p o) else "-");
      "C05i:" ^ (if dom then b2s (M.chk_C05 false k fuel p o) else "-");
      (* the same with data: register machine on the stack vs source semantics, under the fingerprint
         interpretation (constant-size values) *)
      "C05v:" ^ (if dom && c05v_salts > 0 then b2s (M.chk_C05hs salts_list (nat_of_int c05v_nflat) (nat_of_int c05v_nsrc) p o) else "-") ]
