(* Which extracted monitors exist, and how their verdicts are printed: "C09:1 C07:0 ..." *)
module M = Model

let b2s b = if b then "1" else "0"
let rec nat_to_int = function M.O -> 0 | M.S k -> 1 + nat_to_int k

let run_all (p : M.program) (o : M.output) : string =
  String.concat " "
    [ "C09:" ^ b2s (M.chk_C09 o);
      "C07:" ^ b2s (M.chk_C07 p o);
      "j07:" ^ string_of_int (nat_to_int (M.judged_C07 p)) ]
