(* Which extracted monitors exist, and how their verdicts are printed: "C09:1 C10:0 ..." *)
module M = Model

let b2s b = if b then "1" else "0"

let run_all (_p : M.program) (o : M.output) : string =
  String.concat " " [ "C09:" ^ b2s (M.chk_C09 o) ]
