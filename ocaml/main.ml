(* Entry point: verif-model run <programs.sexp> <out> *)
open Driver

let with_lines inp f =
  let ic = open_in inp in
  (try
     while true do
       let line = input_line ic in
       if String.trim line <> "" then f line
     done
   with End_of_file -> ());
  close_in ic

let () =
  match Array.to_list Sys.argv with
  | [ _; "run"; inp; out ] ->
      let oc = open_out out in
      with_lines inp (fun line ->
          let p = program (parse line) in
          output_string oc (p_result (Model.run p));
          output_char oc '\n');
      close_out oc
  | [ _; "monitor"; progs; outs; out ] ->
      (* run every extracted monitor on (program, implementation output) pairs *)
      let oc = open_out out in
      let ic2 = open_in outs in
      with_lines progs (fun line ->
          let oline = input_line ic2 in
          let res =
            try
              let p = program (parse line) in
              match r_output (parse oline) with
              | None -> "panic dom13:" ^ (if Model.in_domain_b p then "1" else "0")
              | Some o -> Monitors_glue.run_all p o
            with Bad m -> "unreadable " ^ m
          in
          output_string oc res;
          output_char oc '\n');
      close_in ic2;
      close_out oc
  | [ _; "summary"; inp; out ] ->
      let oc = open_out out in
      with_lines inp (fun line ->
          let p = program (parse line) in
          output_string oc (String.concat " " (List.map pn (Model.summary (Model.run p))));
          output_char oc '\n');
      close_out oc
  | [ _; "json"; inp; out ] ->
      let oc = open_out out in
      with_lines inp (fun line ->
          output_string oc (p_codec (program (parse line)));
          output_char oc '\n');
      close_out oc
  | [ _; "reprint"; inp; out ] ->
      (* parse outputs and print them back: validates the output reader *)
      let oc = open_out out in
      with_lines inp (fun line ->
          (match r_output (parse line) with
           | Some o -> output_string oc (p_output o)
           | None -> output_string oc "(panic)");
          output_char oc '\n');
      close_out oc
  | _ ->
      prerr_endline "usage: verif-model run <programs.sexp> <out>";
      exit 2
